#!/bin/sh
# tools/verify_seed.sh <seeded-dir> <property> [pytest paths relative to repo root ...]
# Confirms an independently written breaking change and runs the check against it, all in a
# scratch worktree that is removed afterwards.  Prints a summary; exit 0 iff confirmed AND caught.
D=$(cd "$1" && pwd); P=$2; shift 2
HERE="$(cd "$(dirname "$0")/.." && pwd)"
T=$(mktemp -d /tmp/simdst-seed-XXXXXX); WT=$T/repo
git -C /repo worktree add --detach -f "$WT" >/dev/null 2>&1 || { echo "worktree failed"; exit 3; }
DEMO=$(ls "$D"/demo.py "$D"/test_demo.py 2>/dev/null | head -1)
cd "$WT"
TOQITO_ROOT=$WT PYTHONPATH=$WT timeout 900 /venv/bin/python "$DEMO" > $T/demo_clean.log 2>&1; c1=$?
git -C "$WT" apply "$D/patch.diff" || { echo "patch does not apply"; c1=99; }
TOQITO_ROOT=$WT PYTHONPATH=$WT timeout 900 /venv/bin/python "$DEMO" > $T/demo_mut.log 2>&1; c2=$?
t=skipped
if [ $# -gt 0 ]; then PYTHONPATH=$WT timeout 3000 /venv/bin/python -m pytest -q -p no:cacheprovider --timeout=900 "$@" > $T/tests.log 2>&1; t=$?; tail -1 $T/tests.log; fi
cd "$HERE"
VERIF_REPO=$WT VERIF_OUT=$T/out timeout 3000 ./sim check $P --tier ${TIER:-quick} > $T/check.log 2>&1; c3=$?
grep -E "minimised|VIOLATION" $T/check.log | cut -c1-500 | head -6
grep "tier=" $T/check.log | tail -1
echo "RESULT demo_clean_rc=$c1 demo_mutated_rc=$c2 tests_rc=$t check_rc=$c3"
tail -3 $T/demo_mut.log | cut -c1-300
git -C /repo worktree remove --force "$WT"; rm -rf "$T"; git -C /repo worktree prune
[ $c1 -eq 0 ] && [ $c2 -ne 0 ] && [ $c3 -eq 1 ]
