#!/venv/bin/python
"""Regenerate /verif/MANIFEST.json from the table below (kept in one place so that
claimed checks, not_applicable and DESIGN.md stay in step)."""
import json

NA = {
 "C01": "permutation of subsystems is pure index arithmetic on its argument: no state, RNG, I/O, clock or concurrency anywhere in toqito/perms for a scheduler or fault injector to vary",
 "C02": "partial trace is a pure function of its argument (the cvxpy branch only builds an expression tree deterministically); nothing for a scheduler or fault injector to vary",
 "C03": "partial transpose / realignment are pure functions of their argument",
 "C04": "channel representation conversions are pure linear algebra; a chain of conversions is a composition of pure functions with no state to corrupt",
 "C05": "dual / complementary maps are pure functions of their argument",
 "C06": "every stated clause is a pure function of the channel parameters; the only RNG contact in the anchored files (pauli_channel given an integer draws a probability vector from the global RNG) is not a clause of the property",
 "C10": "state discrimination optima are deterministic SDPs of the input; solver choice is a configuration, not a schedule; no state survives a call",
 "C11": "state exclusion optima are deterministic SDPs of the input; no state survives a call",
 "C13": "state distances and fidelities are pure functions",
 "C15": "PPT / separability verdicts are a deterministic cascade of criteria and SDPs on the argument; no randomness, no shared state",
 "C16": "matrix predicates and helpers are pure functions; perturb_vectors (global RNG) is not among the stated clauses",
 "C17": "named states and standard matrices are pure constructors",
 "C18": "symmetric / antisymmetric projectors and enumerators are pure combinatorics",
 "C20": "channel distance measures are deterministic SDPs of the input",
}

TRUST = "CPython, numpy, scipy, cvxpy+SCS/Clarabel and picos+cvxopt as deterministic functions of their inputs; own reference models (cross-checked on tiny instances against literal transcriptions of the statement); sampling, not proof"

CHECKS = {
 "C07": dict(
   engine="simpool+history+interleaved-callers",
   technique="deterministic simulation: seeded discrete-event worker-pool simulator (SimPool) + seeded call histories on one game object with OS-entropy seam; reference models checked after every step; injected faults: worker MemoryError (informational), a call aborted by an asynchronous interrupt at a drawn line of library code and then repeated; two or three caller threads with their own game objects interleaved at line granularity by the seeded baton-passing scheduler (engine T7), judged against the same calls made alone",
   text="Seeded search over worker-pool schedules (worker count, chunk placement, durations, stalls, completion order, fork-time state snapshots) for the classical value above the multiprocessing threshold, and over call histories x entropy values on one NonlocalGame object for state preservation, order independence and the ordering chain (histories include aborted calls, copies of the object, a byte-identical game of another shape, constructor-built product and BCS games through the pool); each violation is shrunk and replayed bit-exactly from its choice list. Exploration level: a clean batch is evidence, not proof.",
   note=TRUST + "; SimPool's fidelity to CPython 3.12 multiprocessing.Pool (chunking, per-chunk pickling, fork snapshots) is cross-checked against the real pool in the thorough tier, not proved; worker death and spawn start-method are not modelled; NPA levels have no independent oracle beyond the sandwich between achieved values and the LP value",
   design="4 (C07)"),
 "C08": dict(
   engine="simpool+history+interleaved-callers",
   technique="deterministic simulation: seeded worker-pool simulator for XOR games with >=10 questions per side; seeded call histories on one XORGame object (with interrupted-call faults) checked against own primal/dual Tsirelson models; two or three caller threads with their own games interleaved at line granularity by the seeded baton-passing scheduler, judged against the same calls made alone",
   text="Seeded search over worker-pool schedules for XORGame.classical_value on games that reach the pool branch, against an independent +/-1 enumeration; plus seeded call histories on one XORGame object (classical / quantum / non-signaling / NPA-1 of the converted game) judged by own primal-dual bias models; plus interleaved callers with their own XORGame objects (engine T8: whatever one caller sees of another goes through state the library keeps). The Bell-inequality-maximiser clauses are not checked (pure function sharing nothing with the simulated objects).",
   note=TRUST + "; only the pool clause is schedule-decided, the remaining clauses are reference-model checks on the objects of the simulated history; bell_inequality_max is not covered",
   design="4 (C08)"),
 "C09": dict(
   engine="history+interleaved-callers",
   technique="deterministic simulation: seeded call histories on one ExtendedNonlocalGame object (OS-entropy seam for the see-saw) and on one QuantumHedging object, with a second same-shape object used in between, interrupted-call faults and in-place parameter sweeps by the caller; two caller threads with their own games / hedging objects interleaved by the seeded scheduler (engine T9); eigenvalue-enumeration, NPA/LP and own primal/dual reference models after every step",
   text="Seeded search over entropy values for the randomised see-saw lower bound and over call orders on one extended-game object (every lower bound and the unentangled value stay below every NPA bound and the non-signaling value; values do not depend on call order), and over call orders of the four value methods of one QuantumHedging object (object unchanged, primal = dual, max >= min, agreement with an own primal/dual pair, two repetitions consistent with the single shot). The cloning clauses are not checked (optimal_clone is a deterministic SDP of its arguments with no object, state or seam).",
   note=TRUST + "; optimal_clone clauses are not covered; the see-saw only runs when referee dimension equals Bob's answer count; hedging closed forms (3/4, cos^2(pi/8)) are covered only through the own primal/dual model on the Molina-Watrous family",
   design="4 (C09)"),
 "C12": dict(
   engine="history+interleaved-callers",
   technique="deterministic simulation: seeded call histories over one caller-owned list of states shared by successive PPT / symmetric-extension calls; aliasing and order-independence invariants plus reference orderings after every step, interrupted-call faults; two caller threads with their own ensembles interleaved at line granularity by the seeded baton-passing scheduler, judged against the same calls made alone",
   text="A simulated caller reuses one list of states across seeded sequences of ppt_distinguishability / symmetric_extension_hierarchy / state_distinguishability calls; after every step the list must be byte-identical to its shadow and every value equal to the value on a pristine copy; orderings (LOCC <= sym-ext <= PPT <= global, primal = dual, level monotonicity) are checked on the values the history produces. Engine HT interleaves two callers that share nothing but the library.",
   note=TRUST + "; invariance under local unitaries / transposed party is sampled sparsely",
   design="4 (C12)"),
 "C14": dict(
   engine="global-rng",
   technique="deterministic simulation: seeded control of the process-global numpy RNG (the only nondeterministic input of the randomised S(k)-norm lower bound) with adversary draws between calls and writes to the global generator (reseed / advance / rewind) injected at line boundaries INSIDE the call; bracket invariants against own Schmidt-rank-k witnesses",
   text="Only the S(k) operator-norm clause is claimed: the routine is evaluated under many seeded global-RNG states interleaved with adversary draws; lower <= upper, every own Schmidt-rank<=k witness <= upper, exact regimes equal the reference. All closed-form / invariance clauses are pure functions and are not checked.",
   note=TRUST + "; the closed-form clauses (negativity, log-negativity, EoF, concurrence, Schmidt rank/decomposition, S(k) vector norm, coherence, purity, entropy, product test) are not covered",
   design="4 (C14)"),
 "C19": dict(
   engine="thread-scheduler",
   technique="deterministic simulation: real client threads run one at a time by a seeded baton-passing scheduler with sys.settrace pre-emption points inside toqito, OS-entropy seam, global-RNG adversary; callers editing returned objects in place; quiescent reference model, bitwise comparison",
   text="Seeded search over thread interleavings (pre-emption at every Python line inside toqito), adversary writes to the process-global RNGs, entropy values and call histories: every seeded generator call must be bitwise equal to its quiescent reference wherever it occurs, different seeds must differ, every returned object must be of the advertised kind, and PGM/PBM/measure outputs built inside the history must be valid. Violations are shrunk and replayed bit-exactly.",
   note=TRUST + "; pre-emption at Python line granularity, numpy calls are atomic; P_opt for >2 states via an own SDP, sampled",
   design="4 (C19)"),
}

import os, sys
claimed = [c for c in sys.argv[1:]] or sorted(CHECKS)
man = {
 "version": 1,
 "setup_cmd": "/venv/bin/python -c \"import numpy, scipy, cvxpy, picos, toqito.rand; print('simdst setup ok')\"",
 "hooks": {
   "guard": "none (no source hook exists: every seam is reached by replacing module attributes from the harness; see DESIGN.md section 1)",
   "enable": "nothing to enable; checks import toqito from /repo's working tree (VERIF_REPO overrides the path for scratch copies)",
   "baseline_off_cmd": "cd /repo && /venv/bin/python -m pytest -ra -q -p no:cacheprovider --timeout=900 --continue-on-collection-errors",
   "source_commits": [],
   "add_only": True,
 },
 "engines": [
   {"name": "thread-scheduler", "path": "simdst/sched.py, simdst/engines/c19_rand.py", "serves_properties": ["C19"], "kind_free_text": "baton-passing real threads, sys.settrace pre-emption, seeded choice source"},
   {"name": "simpool", "path": "simdst/simpool.py, simdst/engines/c07_pool.py, simdst/engines/c08_pool.py", "serves_properties": ["C07", "C08"], "kind_free_text": "discrete-event in-process stand-in for multiprocessing.Pool"},
   {"name": "history", "path": "simdst/engines/*_hist.py", "serves_properties": ["C07", "C08", "C09", "C12"], "kind_free_text": "seeded operation histories on long-lived objects with entropy seam and reference models"},
   {"name": "interleaved-callers", "path": "simdst/engines/threads_common.py, c07_threads.py, c08_threads.py, c09_threads.py, c12_threads.py", "serves_properties": ["C07", "C08", "C09", "C12"], "kind_free_text": "2..3 real threads with their own objects under the baton-passing scheduler; reference = the same call made alone"},
   {"name": "global-rng", "path": "simdst/engines/c14_sk.py", "serves_properties": ["C14"], "kind_free_text": "seeded control of numpy's legacy global RNG with adversary draws"},
 ],
 "checks": [],
 "notes": "Technique family: deterministic simulation with fault injection. One entry point ./sim; every run is a pure function of VERIF_SEED and the code; replay files are recorded choice lists. Properties that are pure functions of their input are listed under not_applicable (DESIGN.md section 5).",
 "not_applicable": [],
}
for pid in sorted(CHECKS):
    c = CHECKS[pid]
    if pid not in claimed:
        NA[pid] = "check not built yet in this revision (planned, see DESIGN.md)"
        continue
    man["checks"].append({
      "property_id": pid,
      "quick_cmd": f"./sim check {pid} --tier quick",
      "thorough_cmd": f"./sim check {pid} --tier thorough",
      "evidence_file": f"/verif/evidence/{pid}.json",
      "replay_cmd_template": "./sim replay {path}",
      "engine": c["engine"],
      "level_claimed": {"category": "exploration", "text": c["text"], "design_ref": "DESIGN.md section " + c["design"]},
      "level_note": c["note"],
      "technique": c["technique"],
    })
for pid in sorted(NA):
    man["not_applicable"].append({"property_id": pid, "reason": NA[pid]})
json.dump(man, open("/verif/MANIFEST.json", "w"), indent=1)
print("claimed", [c["property_id"] for c in man["checks"]], "n/a", len(man["not_applicable"]))
