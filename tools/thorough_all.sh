#!/bin/sh
# every thorough check once (evidence and replays go to a scratch dir; this is a false-alarm hunt, not evidence)
HERE="$(cd "$(dirname "$0")/.." && pwd)"
OUT=$(mktemp -d /tmp/simdst-thorough-XXXXXX)
for p in ${*:-C19 C14 C08 C12 C09 C07}; do
  VERIF_SEED=${VERIF_SEED:-0} VERIF_OUT=$OUT "$HERE/sim" check $p --tier thorough > $OUT/$p.log 2>&1
  echo "$p rc=$? $(grep 'tier=thorough' $OUT/$p.log | tail -1)"
  grep -E "VIOLATION|HARNESS|WARNING|minimised" $OUT/$p.log | cut -c1-500
  /venv/bin/python -c "
import json; d=json.load(open('$OUT/evidence/$p.json')); c=d['coverage']; print('   margins', c['closest_margins']['values']); print('   opfail', c['operations_failed'], 'not started', c['runs_not_started_batch_wall'])"
done
mkdir -p /tmp/thor_keep; cp "$OUT"/replays/*.json /tmp/thor_keep/ 2>/dev/null; rm -rf "$OUT"
