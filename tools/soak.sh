#!/bin/sh
# soak: every quick check under many VERIF_SEED values; output outside /verif/evidence
# usage: tools/soak.sh <first-seed> <last-seed> [props...]
HERE="$(cd "$(dirname "$0")/.." && pwd)"
A=$1; B=$2; shift 2
PROPS="${*:-C07 C08 C09 C12 C14 C19}"
OUT=$(mktemp -d /tmp/simdst-soak-XXXXXX)
bad=0
for s in $(seq $A $B); do
  for p in $PROPS; do
    VERIF_SEED=$s VERIF_OUT=$OUT "$HERE/sim" check $p --tier quick > $OUT/log 2>&1
    rc=$?
    line=$(grep "tier=quick" $OUT/log | tail -1)
    echo "seed=$s $p rc=$rc $line"
    if [ $rc -ne 0 ]; then bad=$((bad+1)); grep -E "VIOLATION|HARNESS|minimised" $OUT/log | cut -c1-600; cp $OUT/log "$HERE/soak-fail-$p-$s.log" 2>/dev/null; fi
  done
done
rm -rf "$OUT"
echo "soak done: non-zero exits = $bad"
