#!/venv/bin/python
"""mkmut.py NAME PROPS FILE 'old' 'new' [FILE old new ...] -- "description"
Create /verif/mutants/NAME.diff (+ .json) from textual replacements made in a scratch worktree of /repo."""
import json, os, subprocess, sys, tempfile, shutil
args = sys.argv[1:]
desc = ""
if "--" in args:
    i = args.index("--"); desc = " ".join(args[i+1:]); args = args[:i]
name, props = args[0], args[1].split(",")
edits = args[2:]
tmp = tempfile.mkdtemp(prefix="mkmut-")
wt = os.path.join(tmp, "repo")
subprocess.run(["git", "-C", "/repo", "worktree", "add", "--detach", "-f", wt], check=True, capture_output=True)
try:
    for k in range(0, len(edits), 3):
        f, old, new = edits[k:k+3]
        p = os.path.join(wt, f)
        s = open(p).read()
        old = old.encode().decode("unicode_escape"); new = new.encode().decode("unicode_escape")
        if s.count(old) != 1:
            raise SystemExit(f"{f}: pattern occurs {s.count(old)} times: {old!r}")
        open(p, "w").write(s.replace(old, new))
    d = subprocess.run(["git", "-C", wt, "diff"], capture_output=True, text=True).stdout
    open(f"/verif/mutants/{name}.diff", "w").write(d)
    json.dump({"properties": props, "description": desc}, open(f"/verif/mutants/{name}.json", "w"), indent=1)
    print(d)
finally:
    subprocess.run(["git", "-C", "/repo", "worktree", "remove", "--force", wt], capture_output=True)
    shutil.rmtree(tmp, ignore_errors=True)
    subprocess.run(["git", "-C", "/repo", "worktree", "prune"], capture_output=True)
