#!/bin/sh
# run the unedited existing suite against every seeded patch (or the ids given as arguments) (each in its own scratch worktree), 6 at a time
OUT=/tmp/fullsuite_seeded; mkdir -p $OUT
run_one() {
  id=$1; T=$(mktemp -d /tmp/fs-XXXXXX); WT=$T/repo
  git -C /repo worktree add --detach -f "$WT" >/dev/null 2>&1
  git -C "$WT" apply /verif/seeded/$id/patch.diff || echo "APPLY FAILED" > $OUT/$id.txt
  (cd "$WT" && PYTHONPATH=$WT OMP_NUM_THREADS=1 /venv/bin/python -m pytest -q -p no:cacheprovider --timeout=900 --continue-on-collection-errors toqito 2>&1 | tail -3) > $OUT/$id.txt
  git -C /repo worktree remove --force "$WT"; rm -rf "$T"
}
n=0
if [ $# -gt 0 ]; then LIST="$*"; else LIST=$(ls -d /verif/seeded/*/ | xargs -n1 basename | grep -v '^_'); fi
for id in $LIST; do
  run_one $id &
  n=$((n+1)); if [ $((n % 6)) -eq 0 ]; then wait; fi
done
wait
git -C /repo worktree prune
for f in $OUT/*.txt; do echo "$(basename $f .txt): $(tail -1 $f)"; done
