#!/venv/bin/python
"""ingest_seed.py <src change dir> <seeded id> <property> <caught_by or MISSED> "<needs>" "<what I ran>" """
import json, os, shutil, sys
src, sid, prop, caught, needs, ran = sys.argv[1:7]
dst = f"/verif/seeded/{sid}"
os.makedirs(dst, exist_ok=True)
for f in os.listdir(src):
    if f in ("patch.diff", "demo.py", "test_demo.py", "notes.md"):
        shutil.copy(os.path.join(src, f), os.path.join(dst, f))
meta = {"property": prop, "breaks": open(os.path.join(src, "notes.md")).read().split("\n\n")[0][:600] if os.path.exists(os.path.join(src, "notes.md")) else "",
        "needs_to_manifest": needs, "confirmed_by": ran, "caught_by": caught, "origin": "independent sub-agent given only the property text and a scratch worktree"}
json.dump(meta, open(os.path.join(dst, "meta.json"), "w"), indent=1)
print("ingested", dst)
