"""Known findings: committed list, read-only at run time.

Entry: {"id", "property", "invariant", "where": "<python expression over the
violation detail>", "what", "status": "open"|"fixed", "commit"}.
Only status == "open" entries suppress anything; a fixed entry is a record.
`where` is evaluated with the detail dict's keys as the only names.
"""

from __future__ import annotations

import json
import os

_PATH = os.path.join(os.path.dirname(os.path.dirname(os.path.abspath(__file__))), "known_findings.json")
_cache = None

_SAFE = {"min": min, "max": max, "len": len, "all": all, "any": any, "abs": abs, "str": str, "int": int, "isinstance": isinstance, "list": list, "set": set, "sorted": sorted, "True": True, "False": False, "None": None}


def load():
    global _cache
    if _cache is None:
        try:
            with open(_PATH) as f:
                _cache = json.load(f)["findings"]
        except FileNotFoundError:
            _cache = []
    return _cache


def match(prop, invariant, detail):
    """Return the open finding that lists this violation, or None."""
    for kf in load():
        if kf.get("status") != "open" or kf["property"] != prop or kf["invariant"] != invariant:
            continue
        env = dict(detail) if isinstance(detail, dict) else {"detail": detail}
        try:
            if eval(kf["where"], {"__builtins__": {}, **_SAFE}, env):  # noqa: S307 - committed file, restricted names
                return kf
        except Exception:
            continue
    return None
