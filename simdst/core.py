"""Core of the deterministic simulator: choice source, event log, digests.

One integer decides everything: VERIF_SEED -> per-run seed -> one private
random.Random per named *stream*.  Every decision of a run (workload shape,
scheduler decisions, pool shape, entropy handed to numpy, adversary actions)
is a draw from a stream and is appended to that stream's record.  A stream can
equally be backed by a recorded list (replay / shrinking); when the list runs
out it returns 0, the minimal choice, so truncated lists are valid runs.

Nothing in here reads a clock or the process-global RNGs.
"""

from __future__ import annotations

import hashlib
import json
import random

import numpy as np


def mix(*parts) -> int:
    """Stable 64-bit hash of the parts (independent of PYTHONHASHSEED)."""
    h = hashlib.sha256(repr(parts).encode()).digest()
    return int.from_bytes(h[:8], "big")


class Stream:
    """A sequence of bounded integer draws, fresh (PRNG) or recorded."""

    __slots__ = ("name", "rng", "recorded", "pos", "taken", "overrun")

    def __init__(self, name, rng=None, recorded=None):
        self.name = name
        self.rng = rng
        self.recorded = recorded
        self.pos = 0
        self.taken = []
        self.overrun = 0

    # -- primitive -----------------------------------------------------------
    def draw(self, n: int) -> int:
        """Integer in [0, n).  0 is always the 'simplest' alternative."""
        if n <= 1:
            v = 0
        elif self.recorded is not None:
            if self.pos < len(self.recorded):
                v = self.recorded[self.pos]
                if v >= n:
                    v = n - 1
                elif v < 0:
                    v = 0
            else:
                v = 0
                self.overrun += 1
        else:
            v = self.rng.randrange(n)
        self.pos += 1
        self.taken.append(v)
        return v

    # -- helpers (all defined through draw) ----------------------------------
    def bool(self, p: float) -> bool:
        """True with probability ~p; 0 -> False."""
        k = int(round(p * 1000))
        if k <= 0:
            self.draw(1)
            return False
        return self.draw(1000) >= 1000 - k

    def int_range(self, lo: int, hi: int) -> int:
        """Integer in [lo, hi]; smallest first."""
        return lo + self.draw(hi - lo + 1)

    def choice(self, seq):
        return seq[self.draw(len(seq))]

    def weighted(self, pairs):
        """pairs: [(item, integer weight)...]; first item is the minimal one."""
        total = sum(w for _, w in pairs)
        v = self.draw(total)
        acc = 0
        for item, w in pairs:
            acc += w
            if v < acc:
                return item
        return pairs[-1][0]

    def float01(self) -> float:
        return self.draw(1 << 30) / float(1 << 30)

    def seed32(self) -> int:
        return self.draw(1 << 32)

    def bits(self, k: int) -> int:
        return self.draw(1 << k)

    def nprng(self) -> np.random.Generator:
        """A numpy Generator derived from one draw (for bulk array data)."""
        return np.random.Generator(np.random.PCG64(self.draw(1 << 62)))


class ChoiceSource:
    """Named streams derived from one run seed, or from a recorded dict."""

    def __init__(self, run_seed: int | None = None, recorded: dict | None = None):
        self.run_seed = run_seed
        self.recorded = recorded
        self.streams: dict[str, Stream] = {}

    def s(self, name: str) -> Stream:
        st = self.streams.get(name)
        if st is None:
            if self.recorded is not None:
                st = Stream(name, recorded=list(self.recorded.get(name, [])))
            else:
                st = Stream(name, rng=random.Random(mix(self.run_seed, name)))
            self.streams[name] = st
        return st

    def taken(self) -> dict:
        return {k: list(v.taken) for k, v in sorted(self.streams.items())}

    def total_draws(self) -> int:
        return sum(len(v.taken) for v in self.streams.values())


# ----------------------------------------------------------------------------
# digests
# ----------------------------------------------------------------------------

def adigest(x) -> str:
    """Bitwise digest of an array-like / nested result (shape, dtype, bytes)."""
    h = hashlib.sha256()
    _feed(h, x)
    return h.hexdigest()[:16]


def _feed(h, x):
    if isinstance(x, np.ndarray):
        a = np.ascontiguousarray(x)
        h.update(b"A" + str(a.shape).encode() + str(a.dtype).encode())
        h.update(a.tobytes())
    elif isinstance(x, (list, tuple)):
        h.update(b"L%d" % len(x))
        for e in x:
            _feed(h, e)
    elif isinstance(x, dict):
        h.update(b"D%d" % len(x))
        for k in sorted(x, key=repr):
            _feed(h, k)
            _feed(h, x[k])
    elif isinstance(x, (float, np.floating)):
        h.update(b"F" + float(x).hex().encode())
    elif isinstance(x, (complex, np.complexfloating)):
        c = complex(x)
        h.update(b"C" + c.real.hex().encode() + c.imag.hex().encode())
    elif hasattr(x, "toarray"):
        _feed(h, np.asarray(x.toarray()))
    else:
        h.update(b"R" + repr(x).encode())


class EventLog:
    """Append-only list of events with a global sequence number."""

    def __init__(self):
        self.events = []

    def add(self, *fields):
        self.events.append((len(self.events),) + tuple(fields))

    def digest(self) -> str:
        h = hashlib.sha256()
        for e in self.events:
            h.update(repr(e).encode())
            h.update(b"\n")
        return h.hexdigest()[:24]

    def tail(self, n=40):
        return [list(map(_jsonable, e)) for e in self.events[-n:]]

    def all(self):
        return [list(map(_jsonable, e)) for e in self.events]


def _jsonable(x):
    if isinstance(x, (str, int, bool)) or x is None:
        return x
    if isinstance(x, float):
        return x if np.isfinite(x) else repr(x)
    if isinstance(x, (np.integer,)):
        return int(x)
    if isinstance(x, (np.floating,)):
        return float(x)
    if isinstance(x, (list, tuple)):
        return [_jsonable(e) for e in x]
    if isinstance(x, dict):
        return {str(k): _jsonable(v) for k, v in x.items()}
    if isinstance(x, np.ndarray):
        return arr_to_json(x)
    return repr(x)


def arr_to_json(a: np.ndarray, limit=4096):
    a = np.asarray(a)
    if a.size > limit:
        return {"shape": list(a.shape), "dtype": str(a.dtype), "digest": adigest(a)}
    if np.iscomplexobj(a):
        return {"shape": list(a.shape), "dtype": str(a.dtype), "re": a.real.tolist(), "im": a.imag.tolist()}
    return {"shape": list(a.shape), "dtype": str(a.dtype), "data": a.tolist()}


def jdump(obj) -> str:
    return json.dumps(_jsonable(obj), sort_keys=True)


class Violation(Exception):
    """Raised by an oracle; carries the stable invariant id."""

    def __init__(self, invariant: str, detail: dict | str):
        super().__init__(f"{invariant}: {detail}")
        self.invariant = invariant
        self.detail = detail


class RunResult:
    """What one simulated run reports back to the driver."""

    def __init__(self):
        self.violations = []  # [(invariant, detail-dict)]
        self.probes = {}  # name -> count (what FIRED)
        self.faults = {}  # fault kind -> count
        self.opfail = {}  # operation-failed outcome -> count
        self.checks_sim = 0  # oracle evaluations of sim-decided clauses
        self.checks_workload = 0  # oracle evaluations of workload invariants
        self.nontrivial = False
        self.case_key = ""  # digest identifying (operations, schedule)
        self.interleaving = ""  # digest of the switch sequence, if any
        self.sim_time = 0.0
        self.sample = None  # human-readable description of the case
        self.log = EventLog()
        self.info = {}
        self.margins = {}  # name -> largest observed (violation quantity / allowed slack); > 1 means violated

    def margin(self, name, ratio):
        try:
            r = float(ratio)
        except Exception:
            return
        if r == r and r > self.margins.get(name, float("-inf")):
            self.margins[name] = r

    def probe(self, name, k=1):
        self.probes[name] = self.probes.get(name, 0) + k

    def fault(self, name, k=1):
        self.faults[name] = self.faults.get(name, 0) + k

    def failed(self, name, k=1):
        self.opfail[name] = self.opfail.get(name, 0) + k

    def violate(self, invariant, **detail):
        self.violations.append((invariant, _jsonable(detail)))

    def summary(self):
        return {
            "violations": self.violations,
            "probes": self.probes,
            "faults": self.faults,
            "opfail": self.opfail,
            "checks_sim": self.checks_sim,
            "checks_workload": self.checks_workload,
            "nontrivial": bool(self.nontrivial),
            "case_key": self.case_key,
            "interleaving": self.interleaving,
            "sim_time": self.sim_time,
            "digest": self.log.digest(),
            "sample": self.sample,
            "info": self.info,
            "margins": self.margins,
        }
