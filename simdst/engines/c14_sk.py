"""C14 engine K: the S(k) operator-norm routine under a simulator-owned global RNG.

The only nondeterministic input of sk_operator_norm is numpy's process-global
legacy RNG (5**effort random restarts of the lower-bound search, recursion to
lower Schmidt rank).  A run fixes an operator and evaluates the routine under
several global-RNG states set from the choice source, interleaved with
adversary draws that advance the state between calls.  Invariants, for every
RNG state: lower <= upper; every own Schmidt-rank-<=k witness <= upper; exact
regimes equal the reference."""

from __future__ import annotations

import numpy as np

from .. import models
from ..core import RunResult, adigest, mix
from ..seams import global_rng_interrupts, global_state_digest
from .hist_common import quiet

NAME = "K"
PROPERTY = "C14"
RUNS = {"quick": 900, "thorough": 40000}
RUN_WALL_CAP = 240.0
REQUIRED_PROBES = {"quick": ["other_container", "randomized_stage_ran", "exact_regime:k_ge_min_dim", "exact_regime:rank_one", "exact_regime:transpose_exact", "sdp_stage_k1", "sdp_stage_k2", "unequal_dims", "dim_scalar", "dim_omitted", "target_given", "non_hermitian", "projection", "own_upper_bound:dps2", "own_upper_bound:bilinear", "ppt_edge_operator", "two_operators_same_shape", "two_operators_k_ge_2", "target:just_below_attained", "structured_operator"], "thorough": ["randomized_stage_ran", "exact_regime:k_ge_min_dim", "exact_regime:rank_one", "exact_regime:transpose_exact", "sdp_stage_k1", "sdp_stage_k2", "unequal_dims", "dim_scalar", "dim_omitted", "target_given", "non_hermitian", "projection", "result_differs_between_rng_states", "own_upper_bound:dps2", "own_upper_bound:bilinear", "ppt_edge_operator", "two_operators_same_shape", "two_operators_k_ge_2", "target:just_below_attained", "structured_operator"]}
COMPONENTS = {"real": ["toqito.matrix_props.sk_operator_norm incl. the randomised lower bound", "toqito.state_props.sk_vector_norm, schmidt_rank, schmidt_decomposition", "toqito.perms.swap / symmetric_projection", "toqito.channels.partial_trace / partial_transpose / realignment", "scipy.linalg.eigh, cvxpy + SCS/Clarabel"], "stub": ["numpy process-global legacy RNG state (set from the choice source; adversary draws between calls; in a quarter of the calls reseed / advance / rewind writes injected at line boundaries of library code inside the call)"]}
RULE = ("one run = one operator, or two operators of the same local dimensions and k used alternately (density / PSD / projection of seeded rank / rank one / indefinite Hermitian / non-Hermitian / diagonal / block-diagonal / normal-cone operators at PPT edge states / |p><q|+|q><p|; targets placed just below or above an attainable value; local dimensions 2..4, unequal allowed; k = 1..min dim; dim as list / scalar / omitted; effort 0..2; target set or not) "
        "evaluated under 2..4 global-RNG states with adversary draws in between; non-trivial = the randomised stage executed (global RNG state advanced by the call); distinct = distinct digest of (operator, k, options, RNG states)")
SHRINK_ORDER = ["config", "operator", "rng", "intr"]
SLACK = 3e-4  # relative to the operator norm; clean-tree excesses observed up to ~4e-5 (evidence: closest_margins)


def _toqito_prefix():
    import os

    import toqito.matrix_props as mp

    return os.path.dirname(os.path.dirname(os.path.abspath(mp.__file__))) + os.sep


def _lib():
    from toqito.matrix_props import sk_operator_norm

    return sk_operator_norm


def preload():
    _lib()
    import cvxpy  # noqa: F401
    import scipy.linalg  # noqa: F401


def draw_operator(st, tier, like=None, prefer_k2=False, structured_k3=False, upb=False):
    big = 12 if tier == "thorough" else 9
    d0, d1 = st.int_range(2, 4), st.int_range(2, 4)
    if st.draw(3) == 0:
        d0, d1 = st.choice([(2, 2), (2, 3), (3, 2)])
    if prefer_k2 and like is None:
        d0, d1 = st.choice([(3, 3), (3, 4), (4, 3), (4, 4), (3, 3)])
    if like is not None:
        d0, d1 = like["dims"]
    dims = [d0, d1]
    n = d0 * d1
    rng = st.nprng()
    cplx = bool(st.draw(2))
    kind = st.weighted([("density", 4), ("psd", 2), ("projection", 3), ("rank_one", 2), ("indefinite", 2), ("non_hermitian", 1), ("low_rank_psd", 2), ("ppt_edge", 1), ("hermitian_pq", 1), ("diagonal", 2), ("block_diagonal", 2), ("entangled_plus_identity", 1), ("noisy_low_schmidt", 2), ("psd_plus_antihermitian", 2)])
    if like is not None and like.get("_want_low_ratio"):
        kind = "entangled_plus_identity"
    if kind == "ppt_edge" and like is not None:
        kind = "density"
    if upb and like is None:
        # projector onto the complement of an unextendible product basis (Tiles), embedded in 3x3 / 3x4 / 4x3 and
        # rotated locally: its S(1) norm (0.97158...) lies strictly below its PPT value 1, so the bracket closes
        # only through the symmetric-extension stage (effort >= 2) - on unequal local dimensions too
        e = np.eye(3)
        vs = [np.kron(e[0], (e[0] - e[1]) / np.sqrt(2)), np.kron(e[2], (e[1] - e[2]) / np.sqrt(2)), np.kron((e[0] - e[1]) / np.sqrt(2), e[2]),
              np.kron((e[1] - e[2]) / np.sqrt(2), e[0]), np.kron(e.sum(0), e.sum(0)) / 3]
        pj = np.eye(9) - sum(np.outer(v, v) for v in vs)
        d0, d1 = st.weighted([((3, 4), 3), ((4, 3), 2), ((3, 3), 2)])
        emb = np.kron(np.eye(d0, 3), np.eye(d1, 3))
        x = emb @ pj @ emb.T
        rng = st.nprng()
        cplx = bool(st.draw(2))

        def lu(d):
            g = rng.standard_normal((d, d)) + (1j * rng.standard_normal((d, d)) if cplx else 0)
            return np.linalg.qr(g)[0]

        u = np.kron(lu(d0), lu(d1))
        x = u @ x @ u.conj().T
        x = (x + x.conj().T) / 2
        scale = [1.0, 1.0, 2.5, 0.2][st.draw(4)]
        x = x * scale
        effort = st.weighted([(2, 4), (1, 1)])
        meta = {"dims": [d0, d1], "kind": "upb_projector", "complex": cplx, "k": 1, "effort": effort, "dim_arg": "list", "target": None, "scale": scale}
        return x, meta
    if kind == "ppt_edge":
        # operators whose maximum over PPT states sits on a bound-entangled edge state (Horodecki families)
        fam = st.weighted([("2x4", 3), ("4x2", 2), ("3x3", 2)])
        par = 0.05 + 0.9 * st.float01()
        if fam == "3x3":
            d0, d1 = 3, 3
            rho = models.horodecki_3x3(par)
        else:
            d0, d1 = 2, 4
            rho = models.horodecki_2x4(par)
        x = models.ppt_edge_operator(rho, [d0, d1], 0.3 + st.float01(), 0.3 + st.float01())
        if fam == "4x2":
            x = models._swap_factors(x, 2, 4)
            d0, d1 = 4, 2
        dims = [d0, d1]
        n = d0 * d1
        rng = st.nprng()
        cplx = bool(st.draw(2))

        def lu(d):
            g = rng.standard_normal((d, d)) + (1j * rng.standard_normal((d, d)) if cplx else 0)
            return np.linalg.qr(g)[0]

        u = np.kron(lu(d0), lu(d1))
        x = u @ x @ u.conj().T
        x = (x + x.conj().T) / 2
        effort = st.weighted([(1, 5), (2, 1), (0, 1)])
        dimform = st.weighted([("list", 3), ("scalar", 2)])
        meta = {"dims": dims, "kind": kind, "family": fam, "parameter": par, "complex": cplx, "k": 1, "effort": effort, "dim_arg": dimform, "target": None, "scale": 1.0}
        return x, meta

    def gin(r, c):
        return rng.standard_normal((r, c)) + (1j * rng.standard_normal((r, c)) if cplx else 0)

    if kind == "density":
        g = gin(n, n)
        x = g @ g.conj().T
        x = x / np.trace(x).real
    elif kind == "psd":
        g = gin(n, n)
        x = g @ g.conj().T * (0.1 + 5 * rng.random())
    elif kind == "noisy_low_schmidt":
        # (1 - eps) |v><v| + eps sigma with v of Schmidt rank 1..2 in random local bases: the weight sits on an
        # eigenvector of low Schmidt rank, which is where the eigenvector-based analytic bounds are tight
        r_v = 1 + st.draw(min(2, min(d0, d1)))
        a, b = gin(d0, r_v), gin(d1, r_v)
        v = sum(np.kron(a[:, [i]], b[:, [i]]) for i in range(r_v))
        v = v / np.linalg.norm(v)
        g = gin(n, n)
        sigma = g @ g.conj().T
        sigma = sigma / np.trace(sigma).real
        eps = [0.02, 0.05, 0.1, 0.2, 0.3][st.draw(5)]
        x = (1 - eps) * (v @ v.conj().T) + eps * sigma
    elif kind == "low_rank_psd":
        r = 2 + st.draw(max(1, n - 2))
        if st.draw(2):
            r = 2 + st.draw(2)  # ranks 2 and 3: the analytic eigenvector bounds are active
        g = gin(n, r)
        x = g @ g.conj().T
    elif kind == "projection":
        r = 1 + st.draw(n - 1)
        q = np.linalg.qr(gin(n, n))[0][:, :r]
        x = q @ q.conj().T
    elif kind == "rank_one":
        u, v = gin(n, 1), gin(n, 1)
        if st.draw(2):
            v = u
        x = u @ v.conj().T
    elif kind == "entangled_plus_identity":
        # |Phi><Phi| + c I with Phi maximally entangled (up to local unitaries): exactly known S(k) norm
        # k / min(d) + c, a small fraction of the operator norm 1 + c
        m = min(d0, d1)
        phi = np.zeros((n, 1), dtype=complex if cplx else float)
        for i in range(m):
            phi[i * d1 + i, 0] = 1 / np.sqrt(m)
        u = np.kron(np.linalg.qr(gin(d0, d0))[0], np.linalg.qr(gin(d1, d1))[0])
        phi = u @ phi
        x = phi @ phi.conj().T + (0.02 + 0.2 * rng.random()) * np.eye(n)
    elif kind == "diagonal":
        # structured operators: iterates of the alternating search degenerate easily on these
        x = np.diag(rng.random(n) * (rng.random(n) < 0.8))
        if not x.any():
            x[0, 0] = 1.0
        x = x.astype(complex) if cplx else x
    elif kind == "block_diagonal":
        x = np.zeros((n, n), dtype=complex if cplx else float)
        for i in range(d0):
            g = gin(d1, 1 + st.draw(d1))
            x[i * d1:(i + 1) * d1, i * d1:(i + 1) * d1] = g @ g.conj().T
    elif kind == "indefinite":
        g = gin(n, n)
        x = (g + g.conj().T) / 2
    elif kind == "psd_plus_antihermitian":
        # X = P + i eps K with P >= 0 and K Hermitian (for real data: P plus a real antisymmetric matrix): not
        # Hermitian, yet its Hermitian part alone looks like a perfectly good positive operator.  |<v|X|v>| is
        # then larger than <v|P|v>, so bounds computed from P alone are not bounds for X.
        r = 2 + st.draw(max(1, n - 1))
        g = gin(n, min(r, n))
        pp = g @ g.conj().T
        pp = pp / np.linalg.norm(pp, 2)
        kk = gin(n, n)
        kk = (kk + kk.conj().T) / 2 if cplx else (kk - kk.T) / 2
        kk = kk / np.linalg.norm(kk, 2)
        eps = [0.3, 0.5, 0.8, 1.0, 1.5][st.draw(5)]
        x = pp + (1j * eps * kk if cplx else eps * kk)
    elif kind == "hermitian_pq":
        # |p><q| + |q><p| with p a product vector and q highly entangled: indefinite, far from its absolute value
        a, b = gin(d0, 1), gin(d1, 1)
        p = np.kron(a, b)
        p = p / np.linalg.norm(p)
        m = min(d0, d1)
        q = np.zeros((n, 1), dtype=complex if cplx else float)
        for i in range(m):
            q[i * d1 + i, 0] = 1 / np.sqrt(m)
        u = np.kron(np.linalg.qr(gin(d0, d0))[0], np.linalg.qr(gin(d1, d1))[0])
        q = u @ q
        x = p @ q.conj().T + q @ p.conj().T
    else:
        x = gin(n, n)
    k = st.int_range(1, min(dims) + (1 if st.draw(4) == 0 else 0))
    if st.draw(3) and min(dims) > 1:
        k = st.int_range(1, max(1, min(dims) - 1))
    if structured_k3 and like is None:
        # the corner where the search degenerates and recurses to a lower Schmidt rank: structured operators on
        # 4x4 with k = 3 (two library defects were found here by the thorough tier)
        d0, d1 = 4, 4
        dims, n, k = [4, 4], 16, 3
        if st.draw(2):
            kind = "diagonal"
            x = np.diag(rng.random(n) * (rng.random(n) < 0.8))
            if not x.any():
                x[0, 0] = 1.0
            x = x.astype(complex) if cplx else x
        else:
            kind = "block_diagonal"
            x = np.zeros((n, n), dtype=complex if cplx else float)
            for i in range(d0):
                g = gin(d1, 1 + st.draw(d1))
                x[i * d1:(i + 1) * d1, i * d1:(i + 1) * d1] = g @ g.conj().T
    if prefer_k2 and like is None and min(dims) >= 3:
        k = st.int_range(2, min(dims) - 1)
        if kind in ("rank_one", "indefinite", "non_hermitian", "hermitian_pq", "psd_plus_antihermitian"):
            kind = "density"
            g = gin(n, n)
            x = g @ g.conj().T
            x = x / np.trace(x).real
    if like is not None:
        k = like["k"]
    effort = st.weighted([(1, 4), (0, 2), (2, 2)])
    if effort == 2 and n > big:
        effort = 1
    dimform = st.weighted([("list", 3), ("scalar", 2), ("omitted", 2)])
    if dimform == "omitted" and int(np.round(np.sqrt(n))) != d0:
        dimform = "scalar"
    # the same operator in other units: every clause of the property is homogeneous of degree one in X
    scale = 1.0
    if st.draw(5) == 0 and like is None:
        scale = [4e-6, 1e-5, 1e-3, 50.0, 1e4][st.draw(5)]
        x = x * scale
    target = None
    if st.draw(4) == 0:
        target = float(np.linalg.norm(x, 2) * (0.3 + 0.7 * rng.random()))
    meta = {"dims": dims, "kind": kind, "complex": cplx, "k": k, "effort": effort, "dim_arg": dimform, "target": target, "scale": scale}
    # representation: integer-typed array for 0/1 diagonal operators, Fortran order, strided view.  np.matrix is
    # not drawn: the pinned routine refuses it loudly in its randomised stage ("shape too large to be a matrix"),
    # it does not return a wrong bracket, and the property quantifies over operators, not over deprecated containers
    cont = st.weighted([("array", 6), ("fortran", 2), ("view", 2), ("integer", 2)])
    if cont == "integer":
        if kind == "diagonal" and scale == 1.0 and like is None and not structured_k3:
            x = np.diag((np.diag(x).real > 0.35).astype(int))
            if not x.any():
                x[0, 0] = 1
            meta["target"] = None if target is None else float(np.linalg.norm(x, 2) * (0.3 + 0.7 * rng.random()))
            meta["container"] = "integer"
    elif cont != "array":
        from .hist_common import contain

        x = contain(x, cont)
        meta["container"] = cont
    return x, meta


def schmidt_coeffs(vec, dims):
    return np.linalg.svd(np.asarray(vec).reshape(dims[0], dims[1]), compute_uv=False)


def sk_vec_norm(vec, k, dims):
    s = schmidt_coeffs(vec, dims)
    return float(np.sqrt(np.sum(np.sort(s**2)[::-1][:k])))


def witnesses(x, k, dims, rng, starts=6, iters=25):
    """Values |<v|X|v>| (and |<w|X|v>|) attained by unit vectors of Schmidt rank <= k:
    own alternating maximisation on v = vec(A B^T), A: d0 x k, B: d1 x k."""
    import scipy.linalg as sla

    d0, d1 = dims
    # |<v|X|v>| = max over phases t of <v| Herm(e^{it} X) |v>: for Hermitian X the two signs suffice, for other
    # operators a few more rotations are searched (each is a lower bound on the true norm whatever t is)
    scale = float(np.linalg.norm(x, 2)) or 1.0
    x = x / scale
    if np.allclose(x, x.conj().T):
        rotations = [1.0, -1.0]
    else:
        rotations = [np.exp(1j * np.pi * t / 4) for t in range(8)]
    best = 0.0
    for rot in rotations:
        hs = (rot * x + (rot * x).conj().T) / 2
        for _ in range(starts if len(rotations) == 2 else max(2, starts // 2)):
            a = rng.standard_normal((d0, k)) + 1j * rng.standard_normal((d0, k))
            b = rng.standard_normal((d1, k)) + 1j * rng.standard_normal((d1, k))
            val = None
            for _ in range(iters):
                # v = vec(A B^T) (row-major) = kron(I_d0, B) vec(A)
                kb = np.kron(np.eye(d0), b)
                try:
                    w, vecs = sla.eigh(kb.conj().T @ hs @ kb, kb.conj().T @ kb + 1e-13 * np.eye(d0 * k))
                except Exception:
                    break
                a = vecs[:, -1].reshape(d0, k)
                # v = vec(A B^T): as a function of B: v[i*d1+j] = sum_l A[i,l] B[j,l] -> kron(A, I_d1) vec_rowmajor(B^T)?
                ka = np.zeros((d0 * d1, d1 * k), dtype=complex)
                for i in range(d0):
                    for j in range(d1):
                        for l in range(k):
                            ka[i * d1 + j, j * k + l] = a[i, l]
                try:
                    w, vecs = sla.eigh(ka.conj().T @ hs @ ka, ka.conj().T @ ka + 1e-13 * np.eye(d1 * k))
                except Exception:
                    break
                b = vecs[:, -1].reshape(d1, k)
                v = (a @ b.T).reshape(-1)
                nv = np.linalg.norm(v)
                if not np.isfinite(nv) or nv < 1e-12 or not np.all(np.isfinite(v)):
                    val = None  # the own pencil degenerated (structured operator): discard this start
                    break
                v = v / nv
                nval = float(np.real(v.conj() @ hs @ v))
                if val is not None and nval <= val + 1e-12:
                    val = max(val, nval)
                    break
                val = nval
            if val is not None:
                v = (a @ b.T).reshape(-1)
                nv = np.linalg.norm(v)
                if np.isfinite(nv) and nv > 1e-12 and np.all(np.isfinite(v)):
                    v = v / nv
                    # by construction v = vec(A B^T) with k columns: Schmidt rank <= k; the value is recomputed from v
                    sv = np.linalg.svd(v.reshape(d0, d1), compute_uv=False)
                    if int(np.sum(sv > 1e-9 * max(sv[0], 1e-300))) <= k:
                        best = max(best, abs(complex(v.conj() @ x @ v)))
    # bilinear witnesses for non-Hermitian operators: product vectors on both sides
    for _ in range(20):
        va = np.kron(rng.standard_normal(d0) + 1j * rng.standard_normal(d0), rng.standard_normal(d1) + 1j * rng.standard_normal(d1))
        wa = np.kron(rng.standard_normal(d0) + 1j * rng.standard_normal(d0), rng.standard_normal(d1) + 1j * rng.standard_normal(d1))
        va, wa = va / np.linalg.norm(va), wa / np.linalg.norm(wa)
        best = max(best, abs(complex(wa.conj() @ x @ va)))
    return best * scale


class Subject:
    pass


# inputs that reach a numerical corner random draws reach about once in 700 calls (each found by a seeded search
# against the defect repaired in c50c624: the restart of the randomised search from a vector whose Schmidt
# decomposition has fewer terms than the rank it recursed with): (recipe, global numpy seed, effort)
HARD_CASES = [(1, 2, 1), (51, 5, 1), (192, 1, 1), (205, 1, 1), (243, 5, 1), (277, 1, 0), (329, 0, 1)]


def hard_operator(j):
    rng = np.random.default_rng(j)
    return np.diag(rng.random(16) * (rng.random(16) < 0.8))


def _scaled(v, c):
    return None if v is None else v * c


def make_subject(cs, res, tier, stream, like=None, prefer_k2=False, structured_k3=False, hard=None, upb=False):
    sub = Subject()
    if hard is not None:
        x_lib = hard_operator(hard[0])
        meta = {"dims": [4, 4], "kind": "diagonal", "complex": False, "k": 3, "effort": hard[2], "dim_arg": "list", "target": None, "scale": 1.0, "hard_case": list(hard)}
        sub.first_seed = hard[1]
        res.probe("hard_case")
    else:
        x_lib, meta = draw_operator(cs.s(stream), tier, like=like, prefer_k2=prefer_k2, structured_k3=structured_k3, upb=upb)
    # x_lib is what the library is given (possibly np.matrix / integer-typed / strided); every own reference is
    # computed from a plain floating-point ndarray with the same entries
    x = np.asarray(x_lib)
    x = x.astype(float) if x.dtype.kind in "iub" else np.array(x)
    sub.x, sub.meta, sub.x0 = x_lib, meta, np.array(x_lib, copy=True)
    if "container" in meta:
        res.probe("other_container")
    dims, k = meta["dims"], meta["k"]
    sub.opn = float(np.linalg.norm(x, 2))
    sub.herm = bool(np.allclose(x, x.conj().T))
    if dims[0] != dims[1]:
        res.probe("unequal_dims")
    res.probe("dim_" + meta["dim_arg"])
    if meta["target"] is not None:
        res.probe("target_given")
    if not sub.herm:
        res.probe("non_hermitian")
    if meta["kind"] == "projection":
        res.probe("projection")
    if meta["kind"] == "ppt_edge":
        res.probe("ppt_edge_operator")
    if meta["kind"] == "upb_projector":
        res.probe("upb_projector")
    if meta["kind"] in ("diagonal", "block_diagonal"):
        res.probe("structured_operator")
    sub.dim_arg = {"list": list(dims), "scalar": dims[0], "omitted": None}[meta["dim_arg"]]
    sub.k_arg = k
    if hard is None and cs.s("config:" + stream).draw(4) == 0:
        # the same integers as NumPy scalars (what `for d in np.arange(2, 5)` or `min(rho.shape) // 2` hand over)
        sub.dim_arg = {"list": [np.int64(v) for v in dims], "scalar": np.int64(dims[0]), "omitted": None}[meta["dim_arg"]]
        sub.k_arg = np.int64(k)
        meta["numpy_scalar_arguments"] = True
        res.probe("numpy_scalar_arguments")
    # reference values
    sub.rank = int(np.linalg.matrix_rank(x))
    sub.exact = None
    if k >= min(dims):
        sub.exact = ("k_ge_min_dim", sub.opn)
    elif meta["kind"] == "entangled_plus_identity":
        sc = meta.get("scale", 1.0)
        c = float(np.real(np.trace(x)) / sc - 1) / x.shape[0]
        sub.exact_value = sc * (k / min(dims) + c)  # reference for the witness search and the bracket
    elif sub.rank == 1:
        u, sv, vh = np.linalg.svd(x)
        sub.exact = ("rank_one", float(sv[0]) * sk_vec_norm(u[:, 0], k, dims) * sk_vec_norm(vh[0, :].conj(), k, dims))
    wrng = cs.s("witness:" + stream).nprng()
    sub.wit = witnesses(x, min(k, min(dims)), dims, wrng) if k < min(dims) else sub.opn
    sub.psd = sub.herm and float(np.linalg.eigvalsh((x + x.conj().T) / 2)[0]) >= -1e-8 * sub.opn
    if meta["target"] is not None:
        # place the target where the early exits are: just below a value the search can attain (proved by
        # the randomised stage, the call leaves from inside the restart loop), just above it, or anywhere
        mode = cs.s("config:" + stream).draw(4)
        u = cs.s("config:" + stream).float01()
        if mode <= 1:
            meta["target"] = float(sub.wit * (1 - 0.03 * u) - 1e-9)
            meta["target_mode"] = "just_below_attained"
        elif mode == 2:
            meta["target"] = float(sub.wit * (1 + 0.05 * u) + 1e-9)
            meta["target_mode"] = "just_above_attained"
        res.probe("target:" + meta.get("target_mode", "anywhere"))
    # with a target the routine may legitimately stop early with a looser (still valid) bracket
    sub.trans_exact = sub.psd and min(dims) == 2 and max(dims) <= 3 and k == 1 and meta["effort"] >= 1 and sub.rank > 1 and meta["target"] is None
    # own rigorous upper bound on the TRUE norm (not on the library's numbers): a valid lower bound can
    # never exceed it.  k = 1 and PSD: second level of the symmetric-extension hierarchy; otherwise (non-PSD
    # or non-Hermitian, any k): bilinear relaxation.  One SDP per operator, only where it is cheap.
    sub.own_upper = None
    gate = cs.s("config:" + stream).draw(3)
    if k < min(dims) and sub.rank > 1:
        small = min(dims)
        cost = max(dims) * small * (small + 1) // 2
        if sub.psd and k == 1 and cost <= (40 if tier == "thorough" else 24) and (meta["kind"] == "ppt_edge" or gate == 0):
            sub.own_upper = ("dps2", _scaled(models.sk1_dps2_upper(x / sub.opn, dims), sub.opn))
        elif not sub.psd and dims[0] * dims[1] <= 16 and (meta["kind"] in ("hermitian_pq", "indefinite", "psd_plus_antihermitian") or gate == 0):
            sub.own_upper = ("bilinear", _scaled(models.sk_bilinear_upper(x / sub.opn, k, dims), sub.opn))
        elif sub.psd and dims[0] * dims[1] <= 16 and gate == 1:
            # PSD with k >= 2 (or k = 1 where the extension would be too large): own implementation of the
            # k-positivity / PPT outer approximation - bites when the library stops before its own SDP stage
            sub.own_upper = ("bilinear", _scaled(models.sk_bilinear_upper(x / sub.opn, k, dims), sub.opn))
        if sub.own_upper is not None and sub.own_upper[1] is None:
            res.failed("model:" + sub.own_upper[0] + "_sdp")
            sub.own_upper = None
        if sub.own_upper is not None:
            res.probe("own_upper_bound:" + sub.own_upper[0])
    # an exactly known norm must lie inside the bracket
    sub.known = getattr(sub, "exact_value", None)
    sub.outcomes = []
    return sub


def run(cs, tier, run_index):
    quiet()
    res = RunResult()
    sk = _lib()
    hard = HARD_CASES[(run_index // 32) % len(HARD_CASES)] if run_index % 32 == 11 else None
    subs = [make_subject(cs, res, tier, "operator", prefer_k2=(run_index % 8 == 7), structured_k3=(run_index % 16 == 11), hard=hard, upb=(run_index % 32 == 19))]
    # sometimes a second operator of the same local dimensions and the same k lives in the same history
    # (whatever the routine keeps between calls under a key that ignores the operator meets another one)
    if cs.s("config").draw(3) == 2 or run_index % 8 == 7:
        like = dict(subs[0].meta)
        if run_index % 8 == 7:
            # the history that exposes state kept under a key that ignores the operator: first an operator whose call
            # leaves through the `target` early exit, then one whose S(k) norm is a much smaller fraction of its norm
            like["_want_low_ratio"] = True
            if subs[0].meta["target"] is None and subs[0].meta["k"] < min(subs[0].meta["dims"]):
                subs[0].meta["target"] = float(subs[0].wit * 0.985 - 1e-9)
                subs[0].meta["target_mode"] = "just_below_attained"
        subs.append(make_subject(cs, res, tier, "operator:2", like=like))
        if subs[0].meta["k"] >= 2 and subs[0].meta["k"] < min(subs[0].meta["dims"]):
            res.probe("two_operators_k_ge_2")
        res.probe("two_operators_same_shape")

    rs = cs.s("rng")
    n_states = rs.int_range(2, 4) + (2 if len(subs) > 1 else 0)
    stage_ran = 0
    for i in range(n_states):
        sub = subs[rs.draw(len(subs))] if len(subs) > 1 else subs[0]
        x, meta, opn = sub.x, dict({a: b for a, b in sub.meta.items() if not a.startswith("_")}, operator_index=subs.index(sub), operators=len(subs)), sub.opn
        k = sub.meta["k"]
        seed = rs.draw(1 << 32)
        adv = rs.draw(4)
        pinned = False
        if not sub.outcomes and getattr(sub, "first_seed", None) is not None:
            seed, adv, pinned = sub.first_seed, 0, True
        np.random.seed(seed)
        if adv:  # adversary: other code in the process advances the global stream between calls
            np.random.randn(adv * 7)
            res.fault("adversary_global_draws")
        # in a quarter of the calls, writes to the global generator also land INSIDE the call (own stream)
        intr = None
        if not pinned and cs.s("intr").draw(4) == 0:
            intr = global_rng_interrupts(cs.s("intr"), _toqito_prefix(), res=res, log=res.log)
        before = global_state_digest()
        try:
            if intr is not None:
                with intr:
                    out = sk(x, sub.k_arg, sub.dim_arg, sub.meta["target"], sub.meta["effort"])
            else:
                out = sk(x, sub.k_arg, sub.dim_arg, sub.meta["target"], sub.meta["effort"])
            lo, up = float(np.real(out[0])), float(np.real(out[1]))
            o = ("ok", lo, up)
        except ValueError as e:
            if "Numerical problems" in str(e):
                res.failed("sk:numerical_problems")
                o = ("fail", "numerical")
            else:
                o = ("exc", type(e).__name__, str(e)[:160])
        except Exception as e:
            name = type(e).__name__
            if name in ("SolverError",):
                res.failed("sk:" + name)
                o = ("fail", name)
            else:
                o = ("exc", name, str(e)[:160])
        after = global_state_digest()
        if before != after:
            stage_ran += 1
        if intr is not None and intr.fired:
            meta["rng_writes_inside_call"] = [list(f) for f in intr.fired]
            if any("randomized" in w for _, w in intr.fired):
                res.probe("rng_write_inside_randomized_stage")
        res.log.add("call", i, subs.index(sub), seed, adv, o[1:] if o[0] == "ok" else o)
        sub.outcomes.append((seed, o))
        res.checks_sim += 1
        if any(not np.array_equal(t.x, t.x0) for t in subs):
            res.violate("C14.sk.order", why="input operator modified by the call", **meta)
            break
        if o[0] == "exc":
            res.violate("C14.sk.order", why="exception on a valid operator", exc=o[1], msg=o[2], rng_seed=seed, **meta)
            continue
        if o[0] != "ok":
            continue
        lo, up = o[1], o[2]
        slack = SLACK * max(opn, 1e-12)
        if not (np.isfinite(lo) and np.isfinite(up)):
            res.violate("C14.sk.order", why="non-finite bound", lower=lo, upper=up, rng_seed=seed, **meta)
            continue
        res.checks_sim += 2
        res.margin("lower_minus_upper", (lo - up) / slack)
        res.margin("witness_minus_upper", (sub.wit - up) / slack)
        if lo > up + slack:
            res.violate("C14.sk.order", lower=lo, upper=up, op_norm=opn, rng_seed=seed, adversary_draws=adv, call_index=i, **meta)
        if sub.wit > up + slack:
            res.violate("C14.sk.witness", witness=sub.wit, upper=up, lower=lo, op_norm=opn, rng_seed=seed, call_index=i, **meta)
        if lo > opn + slack:
            res.violate("C14.sk.order", why="lower bound above the operator norm", lower=lo, op_norm=opn, rng_seed=seed, call_index=i, **meta)
        if sub.known is not None:
            res.checks_sim += 1
            res.probe("exactly_known_norm")
            if lo > sub.known + slack or up < sub.known - slack:
                res.violate("C14.sk.exact", regime="entangled_plus_identity", lower=lo, upper=up, reference=sub.known, rng_seed=seed, call_index=i, **meta)
        if sub.own_upper is not None:
            res.checks_sim += 1
            res.margin("lower_minus_own_upper:" + sub.own_upper[0], (lo - sub.own_upper[1]) / (slack + 1e-5 * opn))
            if lo > sub.own_upper[1] + slack + 1e-5 * opn:
                res.violate("C14.sk.lower_valid", lower=lo, own_upper_bound_on_true_norm=sub.own_upper[1], method=sub.own_upper[0], upper=up, witness=sub.wit, op_norm=opn, rng_seed=seed, call_index=i, **meta)
            if sub.wit > sub.own_upper[1] + slack + 1e-5 * opn:
                raise AssertionError("reference models disagree: witness %r above own upper bound %r" % (sub.wit, sub.own_upper[1]))
        if sub.exact is not None:
            res.probe("exact_regime:" + sub.exact[0])
            res.checks_sim += 1
            etol = 1e-7 * (max(opn, 1) if sub.meta.get("scale", 1.0) == 1.0 else opn)
            if abs(lo - sub.exact[1]) > etol or abs(up - sub.exact[1]) > etol:
                res.violate("C14.sk.exact", regime=sub.exact[0], lower=lo, upper=up, reference=sub.exact[1], **meta)
        elif sub.trans_exact:
            res.probe("exact_regime:transpose_exact")
            res.checks_sim += 1
            # exact by the PPT criterion in 2x2 / 2x3: both bounds coincide and no witness may exceed them;
            # the witness search reaches the optimum up to its own local-optimum risk, so only one side is required
            if abs(lo - up) > slack:
                res.violate("C14.sk.exact", regime="transpose_exact", lower=lo, upper=up, **meta)
    if stage_ran:
        res.probe("randomized_stage_ran", stage_ran)
    for sub in subs:
        oks = [(sd, o) for sd, o in sub.outcomes if o[0] == "ok"]
        if len(set((round(o[1], 12), round(o[2], 12)) for sd, o in oks)) > 1:
            res.probe("result_differs_between_rng_states")
        if sub.psd and sub.meta["k"] < min(sub.meta["dims"]) and sub.rank > 1 and sub.meta["effort"] >= 1 and not sub.trans_exact:
            res.probe("sdp_stage_k1" if sub.meta["k"] == 1 else "sdp_stage_k2")
    res.nontrivial = stage_ran > 0
    res.case_key = "%016x" % mix([adigest(t.x0) for t in subs], [(t.meta["k"], t.meta["effort"], t.meta["dim_arg"], repr(t.meta["target"])) for t in subs], [tuple(sd for sd, _ in t.outcomes) for t in subs])
    res.sample = {"operators": [dict(t.meta, rank=t.rank, op_norm=t.opn, witness=t.wit) for t in subs], "calls": [[{"rng_seed": sd, "result": list(o[1:]) if o[0] == "ok" else list(o)} for sd, o in t.outcomes] for t in subs]}
    return res
