"""C08 engine A8: XORGame.classical_value through the simulated worker pool
(XOR games with >= 10 questions on the smaller side reach the pool branch of
the converted general game)."""

from __future__ import annotations

import numpy as np

from .. import models
from ..core import RunResult, adigest, mix
from .pool_common import isolated_module_state, make_sim, patched_mp, pool_reach

NAME = "A8"
PROPERTY = "C08"
RUNS = {"quick": 500, "thorough": 20000}
RUN_WALL_CAP = 30.0
REQUIRED_PROBES = {"quick": ["pool_branch_entered", "two_chunks_two_workers", "rectangular", "degenerate_row", "tol_given", "tol_defaulted", "out_of_order_completion", "same_shape_game_sequence"], "thorough": ["pool_branch_entered", "two_chunks_two_workers", "rectangular", "degenerate_row", "tol_given", "tol_defaulted", "out_of_order_completion", "sixtyone_worker_pool", "same_shape_game_sequence"]}
COMPONENTS = {"real": ["toqito.nonlocal_games.XORGame.classical_value / to_nonlocal_game", "NonlocalGame.classical_value / process_iteration", "pickle round trip of every chunk"], "stub": ["multiprocessing.Pool -> SimPool", "os.cpu_count (simulated)"]}
RULE = ("one run = a history of 1..3 XOR games (next one of the same shape and different contents, or a fresh shape; first game evaluated once more at the end) with 10..12 x 10..13 questions (square and rectangular, uniform / skewed / zero-row distributions, planted unique optimal sign assignment at "
        "adversarial enumeration positions, tol given or defaulted) x one simulated pool configuration; non-trivial = pool branch entered with >=2 workers and >=2 chunks or a 1/61-worker edge; "
        "distinct = distinct digest of (game, pool event order)")
SHRINK_ORDER = ["config", "game", "pool", "pool2"]
TOL = 1e-9


def _mods():
    import toqito.nonlocal_games.nonlocal_game as M
    import toqito.nonlocal_games.xor_game as X

    return M, X


def preload():
    _mods()


def draw_xor(st, like=None):
    if like is not None:
        q0, q1 = like["shape"]
    else:
        q_small = st.int_range(10, 12)
        q_big = st.int_range(q_small, 13)
        alice_small = bool(st.draw(2))
        q0, q1 = (q_small, q_big) if alice_small else (q_big, q_small)
    rng = st.nprng()
    qk = st.weighted([("uniform", 3), ("dirichlet", 3), ("zero_row", 3), ("sparse", 2)])
    if qk == "uniform":
        prob = np.full((q0, q1), 1.0 / (q0 * q1))
    else:
        prob = rng.random((q0, q1)) ** 2
        if qk == "sparse":
            prob = prob * (rng.random((q0, q1)) < 0.4)
        if qk == "zero_row":
            prob[rng.integers(0, q0), :] = 0.0
            if st.draw(2):
                prob[:, rng.integers(0, q1)] = 0.0
        if prob.sum() == 0:
            prob[0, 0] = 1.0
        prob = prob / prob.sum()
    pk = st.weighted([("random", 3), ("planted", 5), ("constant", 1)])
    meta = {"shape": [q0, q1], "prob_kind": qk, "pred_kind": pk}
    if pk == "random":
        pred = (rng.random((q0, q1)) < 0.5).astype(int)
    elif pk == "constant":
        pred = np.full((q0, q1), int(st.draw(2)))
    else:
        # f(x,y) = s_x xor t_y has a perfect strategy (a_x = s_x, b_y = t_y), unique up to the global flip
        # on the connected support; the position of the optimum in the enumeration is adversarial
        n_small = min(q0, q1)
        total = 2**n_small
        pos = st.weighted([("last", 3), ("first", 1), ("near_end", 3), ("anywhere", 3)])
        idx = {"last": total - 1, "first": 0}.get(pos)
        if idx is None:
            idx = total - 1 - st.draw(64) if pos == "near_end" else st.draw(total)
        bits_small = [(idx >> (n_small - 1 - j)) & 1 for j in range(n_small)]
        bits_big = [int(v) for v in rng.integers(0, 2, size=max(q0, q1))]
        # the library enumerates Alice iff she has strictly fewer strategies, else Bob
        s, t = (bits_small, bits_big) if q0 < q1 else (bits_big, bits_small)
        s, t = (list(s) + [0] * q0)[:q0], (list(t) + [0] * q1)[:q1]
        pred = np.array([[s[x] ^ t[y] for y in range(q1)] for x in range(q0)])
        noise = rng.random((q0, q1)) < 0.08
        pred = np.where(noise, 1 - pred, pred)
        meta["planted"] = {"index": idx, "position": pos}
    return prob, pred, meta


def run(cs, tier, run_index):
    M, X = _mods()
    with isolated_module_state([M, X], [M.NonlocalGame, X.XORGame]):
        return _run(cs, tier, run_index, M, X)


def _run(cs, tier, run_index, M, X):
    res = RunResult()
    cfg = cs.s("config")
    second = cfg.draw(4) == 1
    tol_given = bool(cfg.draw(2))
    n_extra = cfg.weighted([(0, 5), (1, 3), (2, 2)])
    if run_index % 16 == 4:
        n_extra = max(n_extra, 1)
    games = [draw_xor(cs.s("game"))]
    for j in range(n_extra):
        hs = cs.s(f"game:{j + 1}")
        like = games[-1][2] if hs.draw(3) else None
        games.append(draw_xor(hs, like=like))
        if like is not None:
            res.probe("same_shape_game_sequence")
    res.probe("tol_given" if tol_given else "tol_defaulted")
    sim = make_sim(cs, res, "pool", [M, X], [M.NonlocalGame, X.XORGame])
    if run_index % 16 == 1:
        sim.cpu_count = 1
    elif run_index % 16 == 2 and tier == "thorough":
        sim.cpu_count = 61
    objs, expected, outcomes = [], [], []
    order = list(range(len(games))) + ([0] if len(games) > 1 else [])
    for pos, gi in enumerate(order):
        prob, pred, meta = games[gi]
        if pos < len(games):
            q0, q1 = meta["shape"]
            if q0 != q1:
                res.probe("rectangular")
            if np.any(prob.sum(axis=1) == 0) or np.any(prob.sum(axis=0) == 0):
                res.probe("degenerate_row")
            if "planted" in meta:
                res.probe("planted_optimum:" + meta["planted"]["position"])
            expected.append(models.xor_classical_bf(prob, pred))
            try:
                g = X.XORGame(prob, pred, tol=1e-9) if tol_given else X.XORGame(prob, pred)
            except Exception as e:
                res.violate("C08.pool.value", why="constructor raised on a valid game", exc=type(e).__name__, msg=str(e)[:200], **meta)
                return res
            objs.append((g, np.array(g.prob_mat, copy=True), np.array(g.pred_mat, copy=True)))
        game, prob0, pred0 = objs[gi]
        chunks_before = sim.chunks
        out = call(M, game, sim)
        outcomes.append(out)
        res.log.add("pool", pos, gi, meta["shape"], sim.max_workers, sim.chunks - chunks_before, sim.completion_order[-64:], repr(out[1])[:40])
        res.checks_sim += 1
        judge(res, out, expected[gi], dict(meta, position_in_history=pos, games_in_history=len(games)), sim)
        res.checks_sim += 1
        if not (np.array_equal(game.prob_mat, prob0) and np.array_equal(game.pred_mat, pred0)):
            res.violate("C08.hist.order", why="XOR game object changed by classical_value through the pool", **meta)
            break
    nontrivial = pool_reach(sim, res)
    out = outcomes[0]
    if second and out[0] == "ok" and not res.violations:
        sim2 = make_sim(cs, res, "pool2", [M, X], [M.NonlocalGame, X.XORGame])
        out2 = call(M, objs[0][0], sim2)
        pool_reach(sim2, res)
        res.probe("second_pool_config_compared")
        res.checks_sim += 1
        if out2[0] != "ok" or not _num(out2[1]) or abs(float(out2[1]) - float(out[1])) > TOL:
            res.violate("C08.pool.value", why="two pool configurations disagree", first=repr(out[1])[:60], second=repr(out2[1])[:60], workers=[sim.max_workers, sim2.max_workers], **games[0][2])
    res.nontrivial = nontrivial
    res.case_key = "%016x" % mix([adigest(g[0]) + adigest(g[1]) for g in games], sim.max_workers, tuple(sim.completion_order))
    res.interleaving = "%016x" % mix(sim.max_workers, tuple(sim.completion_order))
    res.sample = {"games": [g[2] for g in games], "call_order": order, "workers": sim.max_workers, "chunks": sim.chunks, "completion_order_head": sim.completion_order[:16], "values": [repr(o[1])[:24] for o in outcomes], "models": expected, "tol_given": tol_given}
    return res


def call(M, game, sim):
    import toqito.nonlocal_games.xor_game as X

    with patched_mp(M, sim, more_modules=[X]):
        try:
            return ("ok", game.classical_value())
        except Exception as e:
            return ("exc", type(e).__name__, str(e)[:200])


def _num(v):
    try:
        return bool(np.isfinite(float(v)))
    except Exception:
        return False


def judge(res, out, expected, meta, sim):
    inv = "C08.pool.value"
    if out[0] != "ok":
        res.violate(inv, why="exception", exc=out[1], msg=out[2], workers=sim.max_workers, chunks=sim.chunks, **meta)
    elif not _num(out[1]):
        res.violate(inv, why="not a finite number", got=repr(out[1])[:60], **meta)
    elif abs(float(out[1]) - expected) > TOL:
        res.violate(inv, why="value differs from +/-1 enumeration model", got=float(out[1]), expected=expected, workers=sim.max_workers, chunks=sim.chunks, pool_entered=sim.pools > 0, **meta)
