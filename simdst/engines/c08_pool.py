"""C08 engine A8: XORGame.classical_value through the simulated worker pool
(XOR games with >= 10 questions on the smaller side reach the pool branch of
the converted general game)."""

from __future__ import annotations

import numpy as np

from .. import models
from ..core import RunResult, adigest, mix
from .pool_common import make_sim, patched_mp, pool_reach

NAME = "A8"
PROPERTY = "C08"
RUNS = {"quick": 500, "thorough": 20000}
RUN_WALL_CAP = 30.0
REQUIRED_PROBES = {"quick": ["pool_branch_entered", "two_chunks_two_workers", "rectangular", "degenerate_row", "tol_given", "tol_defaulted", "out_of_order_completion"], "thorough": ["pool_branch_entered", "two_chunks_two_workers", "rectangular", "degenerate_row", "tol_given", "tol_defaulted", "out_of_order_completion", "sixtyone_worker_pool"]}
COMPONENTS = {"real": ["toqito.nonlocal_games.XORGame.classical_value / to_nonlocal_game", "NonlocalGame.classical_value / process_iteration", "pickle round trip of every chunk"], "stub": ["multiprocessing.Pool -> SimPool", "os.cpu_count (simulated)"]}
RULE = ("one run = one XOR game with 10..12 x 10..13 questions (square and rectangular, uniform / skewed / zero-row distributions, planted unique optimal sign assignment at "
        "adversarial enumeration positions, tol given or defaulted) x one simulated pool configuration; non-trivial = pool branch entered with >=2 workers and >=2 chunks or a 1/61-worker edge; "
        "distinct = distinct digest of (game, pool event order)")
SHRINK_ORDER = ["config", "game", "pool", "pool2"]
TOL = 1e-9


def _mods():
    import toqito.nonlocal_games.nonlocal_game as M
    import toqito.nonlocal_games.xor_game as X

    return M, X


def preload():
    _mods()


def draw_xor(st):
    q_small = st.int_range(10, 12)
    q_big = st.int_range(q_small, 13)
    alice_small = bool(st.draw(2))
    q0, q1 = (q_small, q_big) if alice_small else (q_big, q_small)
    rng = st.nprng()
    qk = st.weighted([("uniform", 3), ("dirichlet", 3), ("zero_row", 3), ("sparse", 2)])
    if qk == "uniform":
        prob = np.full((q0, q1), 1.0 / (q0 * q1))
    else:
        prob = rng.random((q0, q1)) ** 2
        if qk == "sparse":
            prob = prob * (rng.random((q0, q1)) < 0.4)
        if qk == "zero_row":
            prob[rng.integers(0, q0), :] = 0.0
            if st.draw(2):
                prob[:, rng.integers(0, q1)] = 0.0
        if prob.sum() == 0:
            prob[0, 0] = 1.0
        prob = prob / prob.sum()
    pk = st.weighted([("random", 3), ("planted", 5), ("constant", 1)])
    meta = {"shape": [q0, q1], "prob_kind": qk, "pred_kind": pk}
    if pk == "random":
        pred = (rng.random((q0, q1)) < 0.5).astype(int)
    elif pk == "constant":
        pred = np.full((q0, q1), int(st.draw(2)))
    else:
        # f(x,y) = s_x xor t_y has a perfect strategy (a_x = s_x, b_y = t_y), unique up to the global flip
        # on the connected support; the position of the optimum in the enumeration is adversarial
        n_small = min(q0, q1)
        total = 2**n_small
        pos = st.weighted([("last", 3), ("first", 1), ("near_end", 3), ("anywhere", 3)])
        idx = {"last": total - 1, "first": 0}.get(pos)
        if idx is None:
            idx = total - 1 - st.draw(64) if pos == "near_end" else st.draw(total)
        bits_small = [(idx >> (n_small - 1 - j)) & 1 for j in range(n_small)]
        bits_big = [int(v) for v in rng.integers(0, 2, size=max(q0, q1))]
        # the library enumerates Alice iff she has strictly fewer strategies, else Bob
        s, t = (bits_small, bits_big) if q0 < q1 else (bits_big, bits_small)
        s, t = (list(s) + [0] * q0)[:q0], (list(t) + [0] * q1)[:q1]
        pred = np.array([[s[x] ^ t[y] for y in range(q1)] for x in range(q0)])
        noise = rng.random((q0, q1)) < 0.08
        pred = np.where(noise, 1 - pred, pred)
        meta["planted"] = {"index": idx, "position": pos}
    return prob, pred, meta


def run(cs, tier, run_index):
    res = RunResult()
    M, X = _mods()
    cfg = cs.s("config")
    second = cfg.draw(4) == 1
    tol_given = bool(cfg.draw(2))
    prob, pred, meta = draw_xor(cs.s("game"))
    q0, q1 = meta["shape"]
    if q0 != q1:
        res.probe("rectangular")
    if np.any(prob.sum(axis=1) == 0) or np.any(prob.sum(axis=0) == 0):
        res.probe("degenerate_row")
    res.probe("tol_given" if tol_given else "tol_defaulted")
    if "planted" in meta:
        res.probe("planted_optimum:" + meta["planted"]["position"])
    prob0, pred0 = prob.copy(), pred.copy()
    expected = models.xor_classical_bf(prob, pred)
    try:
        game = X.XORGame(prob, pred, tol=1e-9) if tol_given else X.XORGame(prob, pred)
    except Exception as e:
        res.violate("C08.pool.value", why="constructor raised on a valid game", exc=type(e).__name__, msg=str(e)[:200], **meta)
        return res
    sim = make_sim(cs, res, "pool", [M, X], [M.NonlocalGame, X.XORGame])
    if run_index % 16 == 1:
        sim.cpu_count = 1
    elif run_index % 16 == 2 and tier == "thorough":
        sim.cpu_count = 61
    out = call(M, game, sim)
    nontrivial = pool_reach(sim, res)
    res.log.add("pool", meta["shape"], sim.max_workers, sim.chunks, sim.completion_order[:64], repr(out[1])[:40])
    res.checks_sim += 1
    judge(res, out, expected, meta, sim)
    res.checks_sim += 1
    if not (np.array_equal(game.prob_mat, prob0) and np.array_equal(game.pred_mat, pred0)):
        res.violate("C08.hist.order", why="XOR game object changed by classical_value through the pool", **meta)
    if second and out[0] == "ok":
        sim2 = make_sim(cs, res, "pool2", [M, X], [M.NonlocalGame, X.XORGame])
        out2 = call(M, game, sim2)
        pool_reach(sim2, res)
        res.probe("second_pool_config_compared")
        res.checks_sim += 1
        if out2[0] != "ok" or not _num(out2[1]) or abs(float(out2[1]) - float(out[1])) > TOL:
            res.violate("C08.pool.value", why="two pool configurations disagree", first=repr(out[1])[:60], second=repr(out2[1])[:60], workers=[sim.max_workers, sim2.max_workers], **meta)
    res.nontrivial = nontrivial
    res.case_key = "%016x" % mix(adigest(prob0), adigest(pred0), sim.max_workers, tuple(sim.completion_order))
    res.interleaving = "%016x" % mix(sim.max_workers, tuple(sim.completion_order))
    res.sample = {"game": meta, "workers": sim.max_workers, "chunks": sim.chunks, "completion_order_head": sim.completion_order[:16], "value": repr(out[1])[:30], "model": expected, "tol_given": tol_given}
    return res


def call(M, game, sim):
    with patched_mp(M, sim):
        try:
            return ("ok", game.classical_value())
        except Exception as e:
            return ("exc", type(e).__name__, str(e)[:200])


def _num(v):
    try:
        return bool(np.isfinite(float(v)))
    except Exception:
        return False


def judge(res, out, expected, meta, sim):
    inv = "C08.pool.value"
    if out[0] != "ok":
        res.violate(inv, why="exception", exc=out[1], msg=out[2], workers=sim.max_workers, chunks=sim.chunks, **meta)
    elif not _num(out[1]):
        res.violate(inv, why="not a finite number", got=repr(out[1])[:60], **meta)
    elif abs(float(out[1]) - expected) > TOL:
        res.violate(inv, why="value differs from +/-1 enumeration model", got=float(out[1]), expected=expected, workers=sim.max_workers, chunks=sim.chunks, pool_entered=sim.pools > 0, **meta)
