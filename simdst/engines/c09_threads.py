"""C09 engine T9: two callers, each with its own extended games / hedging objects, interleaved at line granularity."""

from __future__ import annotations

import json

from ..core import RunResult, mix
from .c09_hedge import METHODS, _mod as _hmod, draw_q
from .c09_hist import _mods, draw_game, op_fn
from .hist_common import quiet
from .threads_common import run_clients

NAME = "T9"
PROPERTY = "C09"
RUNS = {"quick": 64, "thorough": 4000}
RUN_WALL_CAP = 120.0
REQUIRED_PROBES = {"quick": ["same_shape_objects_in_two_clients", "interleaved_calls_compared"], "thorough": ["same_shape_objects_in_two_clients", "interleaved_calls_compared"]}
COMPONENTS = {"real": ["toqito.nonlocal_games.ExtendedNonlocalGame (unentangled, NPA level 1, non-signaling) and QuantumHedging (four value methods) called from 2 real threads (own objects each)", "cvxpy + SCS/Clarabel (never pre-empted)"], "stub": ["thread scheduling: baton passing, pre-emption at every Python line of toqito code, decided by the choice source"]}
RULE = ("one run = 2 client threads, both with extended games or both with hedging operators (the second client's objects mostly of the same shape as the first one's, different contents), 1..2 calls each, interleaved by the seeded scheduler; "
        "the see-saw is left out (its entropy comes through a process-wide seam); reference = the same call made alone on a pristine library; non-trivial = >= 1 switch inside a library call and >= 2 values compared")
SHRINK_ORDER = ["config", "game", "sched"]


def preload():
    _mods()
    _hmod()
    import cvxpy  # noqa: F401


def run(cs, tier, run_index):
    quiet()
    res = RunResult()
    E, _ = _mods()
    H = _hmod()
    cfg = cs.s("config")
    hedging = cfg.draw(3) == 0
    clients, desc, first = [], [], None
    for i in range(2):
        gs = cs.s(f"game:{i}")
        ops = []
        for j in range(gs.int_range(1, 2)):
            like = first if (first is not None and gs.draw(3) != 0) else None
            if like is not None and i > 0:
                res.probe("same_shape_objects_in_two_clients")
            if hedging:
                q, _, meta = draw_q(gs, like=like)
                nm = METHODS[gs.draw(4)]
                pub = dict(meta, method=nm)

                def make_fn(q=q, n=meta["reps"], nm=nm):
                    return getattr(H.QuantumHedging(q.copy(), n), nm)
            else:
                prob, pred, meta = draw_game(gs, "quick", like=like)
                r, _, a_out, b_out, a_in, b_in = pred.shape
                nm = gs.weighted([("unentangled", 4), ("npa1", 2), ("nonsignaling", 2)])
                if nm == "unentangled" and a_out**a_in * b_out**b_in > 600:
                    nm = "npa1"
                if nm == "npa1" and r * (1 + (a_out - 1) * a_in + (b_out - 1) * b_in) > 24:
                    nm = "nonsignaling"
                pub = dict({k: v for k, v in meta.items() if not k.startswith("_")}, method=nm)

                def make_fn(prob=prob, pred=pred, nm=nm):
                    return op_fn(E.ExtendedNonlocalGame(prob.copy(), pred.copy()), {"op": nm})
            if first is None:
                first = meta
            ops.append((nm, make_fn, pub))
            desc.append([i, pub])
        clients.append(ops)
    sch, results = run_clients(cs, res, "C09", clients, RUN_WALL_CAP - 10)
    res.case_key = "%016x" % mix(json.dumps(desc, sort_keys=True, default=str), res.interleaving)
    res.sample = {"clients": desc, "hedging": hedging, "switches_inside_library": sch.switches_inside, "values": [[r[1] if r and r[0] == "ok" else None for r in row] for row in results]}
    return res
