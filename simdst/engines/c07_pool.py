"""C07 engine A: classical_value through a simulated worker pool.

One run = one game that reaches the multiprocessing branch x one pool
configuration (worker count, which idle worker takes a chunk, chunk durations,
stalls -> completion order).  Oracle: own vectorised enumeration of the
deterministic strategies."""

from __future__ import annotations

import numpy as np

from .. import models
from ..core import RunResult, adigest, mix
from .pool_common import draw_game, make_sim, patched_mp, pool_reach

NAME = "A"
PROPERTY = "C07"
RUNS = {"quick": 700, "thorough": 30000}
RUN_WALL_CAP = 30.0
REQUIRED_PROBES = {"quick": ["pool_branch_entered", "two_chunks_two_workers", "transposed_branch", "untransposed_branch", "unequal_alphabets", "out_of_order_completion", "single_worker_pool", "second_pool_config_compared"], "thorough": ["pool_branch_entered", "two_chunks_two_workers", "transposed_branch", "untransposed_branch", "unequal_alphabets", "out_of_order_completion", "single_worker_pool", "sixtyone_worker_pool", "second_pool_config_compared", "real_pool_crosscheck"]}
COMPONENTS = {"real": ["toqito.nonlocal_games.NonlocalGame.classical_value / process_iteration", "pickle round trip of every chunk", "numpy"], "stub": ["multiprocessing.Pool -> SimPool (discrete-event, in-process, CPython 3.12 chunking and fork-snapshot semantics)", "os.cpu_count (simulated)"]}
RULE = ("one run = one game with 1001..4096 strategies on the enumerated side (all shape families, unequal alphabets and question counts, 0/1 and fractional predicates, "
        "uniform / skewed / zero-containing question distributions) x one simulated pool configuration (1..61 workers, idle-worker choice, chunk durations, stalls); "
        "non-trivial = pool branch entered with >=2 workers used and >=2 chunks, or the 1-worker / 61-worker edge; distinct = distinct digest of (game, pool event order)")
SHRINK_ORDER = ["config", "game", "pool", "pool2"]
TOL = 1e-9


def _mod():
    import toqito.nonlocal_games.nonlocal_game as M

    return M


def preload():
    _mod()


def run(cs, tier, run_index):
    res = RunResult()
    M = _mod()
    cfg = cs.s("config")
    fault_run = cfg.draw(10) == 9  # separate population, informational only
    second = cfg.draw(4) == 1 or run_index % 16 == 3
    prob, pred, meta = draw_game(cs.s("game"))
    res.probe("transposed_branch" if meta["enumerated"] == "alice" else "untransposed_branch")
    if "planted" in meta:
        res.probe("planted_optimum:" + meta["planted"]["position"])
    if meta["shape"][0] != meta["shape"][1]:
        res.probe("unequal_alphabets")
    prob0, pred0 = prob.copy(), pred.copy()
    expected = models.classical_value_bf_vec(prob, pred)
    game = M.NonlocalGame(prob, pred)

    fault = None
    if fault_run:
        fs = cs.s("fault")
        fault = {"chunk": fs.draw(8), "task": fs.draw(4)}
    sim = make_sim(cs, res, "pool", [M], [M.NonlocalGame], fault=fault)
    if run_index % 16 == 1:
        sim.cpu_count = 1
    elif run_index % 16 == 2 and tier == "thorough":
        sim.cpu_count = 61
    outcome = call(M, game, sim)
    nontrivial = pool_reach(sim, res)
    res.log.add("pool", meta["shape"], meta["enumerated"], sim.max_workers, sim.chunks, sim.completion_order[:64], repr(outcome[1])[:40])

    if fault_run and res.faults.get("worker_memoryerror"):
        # what the call does under an injected worker failure is recorded, never judged
        if outcome[0] == "exc":
            res.probe("fault_outcome:raised_" + outcome[1])
        elif abs(float(outcome[1]) - expected) <= TOL:
            res.probe("fault_outcome:returned_correct")
        else:
            res.probe("fault_outcome:returned_wrong")
    else:
        res.checks_sim += 1
        judge(res, "C07.pool.value", outcome, expected, meta, sim)
        res.checks_sim += 1
        if not (np.array_equal(game.prob_mat, prob0) and np.array_equal(game.pred_mat, pred0) and np.array_equal(prob, prob0) and np.array_equal(pred, pred0)):
            res.violate("C07.pool.args", why="prob_mat / pred_mat changed by classical_value through the pool", **meta)
        if second and outcome[0] == "ok":
            sim2 = make_sim(cs, res, "pool2", [M], [M.NonlocalGame])
            out2 = call(M, game, sim2)
            pool_reach(sim2, res)
            res.probe("second_pool_config_compared")
            res.checks_sim += 1
            if out2[0] != "ok" or not _num(out2[1]) or abs(float(out2[1]) - float(outcome[1])) > TOL:
                res.violate("C07.pool.config", first=repr(outcome[1])[:60], second=repr(out2[1])[:60], workers=[sim.max_workers, sim2.max_workers], **meta)
            res.log.add("pool2", sim2.max_workers, sim2.chunks, sim2.completion_order[:64], repr(out2[1])[:40])

    # stub fidelity (thorough tier): the same game through the REAL multiprocessing.Pool must give the
    # model value too.  Not the deciding step: its schedule is not controlled and cannot be replayed.
    if tier == "thorough" and run_index % 500 == 7 and not fault_run:
        try:
            real = ("ok", M.NonlocalGame(prob0.copy(), pred0.copy()).classical_value())
        except Exception as e:
            real = ("exc", type(e).__name__, str(e)[:200])
        res.probe("real_pool_crosscheck")
        res.checks_sim += 1
        res.log.add("real_pool", repr(real[1])[:40])
        if real[0] != "ok" or not _num(real[1]) or abs(float(real[1]) - expected) > TOL:
            res.violate("C07.pool.value", why="REAL multiprocessing.Pool result differs from the enumeration model", real_pool=True, got=repr(real[1])[:60], expected=expected, **meta)
        elif outcome[0] == "ok" and _num(outcome[1]) and abs(float(real[1]) - float(outcome[1])) > TOL:
            raise AssertionError("SimPool and the real pool disagree: %r vs %r" % (outcome[1], real[1]))
    res.nontrivial = nontrivial and not fault_run
    res.case_key = "%016x" % mix(adigest(prob0), adigest(pred0), sim.max_workers, tuple(sim.completion_order))
    res.interleaving = "%016x" % mix(sim.max_workers, tuple(sim.completion_order))
    res.sample = {"game": meta, "workers": sim.max_workers, "chunks": sim.chunks, "completion_order_head": sim.completion_order[:16], "stall_permille": sim.stall_permille, "fault_population": fault_run, "value": repr(outcome[1])[:30], "model": expected}
    return res


def call(M, game, sim):
    with patched_mp(M, sim):
        try:
            return ("ok", game.classical_value())
        except Exception as e:
            return ("exc", type(e).__name__, str(e)[:200])


def _num(v):
    try:
        return bool(np.isfinite(float(v)))
    except Exception:
        return False


def judge(res, inv, outcome, expected, meta, sim):
    if outcome[0] != "ok":
        res.violate(inv, why="exception", exc=outcome[1], msg=outcome[2], workers=sim.max_workers, chunks=sim.chunks, **meta)
    elif not _num(outcome[1]):
        res.violate(inv, why="not a finite number", got=repr(outcome[1])[:60], workers=sim.max_workers, chunks=sim.chunks, **meta)
    elif abs(float(outcome[1]) - expected) > TOL:
        res.violate(inv, why="value differs from enumeration model", got=float(outcome[1]), expected=expected, workers=sim.max_workers, chunks=sim.chunks, pool_entered=sim.pools > 0, **meta)
