"""C07 engine A: classical_value through a simulated worker pool.

One run = one game that reaches the multiprocessing branch x one pool
configuration (worker count, which idle worker takes a chunk, chunk durations,
stalls -> completion order).  Oracle: own vectorised enumeration of the
deterministic strategies."""

from __future__ import annotations

import numpy as np

from .. import models
from ..core import RunResult, adigest, mix
from .pool_common import draw_game, maybe_integer_dtype, symmetric_game, isolated_module_state, make_sim, patched_mp, pool_reach

NAME = "A"
PROPERTY = "C07"
RUNS = {"quick": 700, "thorough": 30000}
RUN_WALL_CAP = 30.0
REQUIRED_PROBES = {"quick": ["pool_branch_entered", "two_chunks_two_workers", "transposed_branch", "untransposed_branch", "unequal_alphabets", "out_of_order_completion", "single_worker_pool", "second_pool_config_compared", "same_shape_game_sequence", "serial_game_before_pool_game"], "thorough": ["pool_branch_entered", "two_chunks_two_workers", "transposed_branch", "untransposed_branch", "unequal_alphabets", "out_of_order_completion", "single_worker_pool", "sixtyone_worker_pool", "second_pool_config_compared", "real_pool_crosscheck", "same_shape_game_sequence", "serial_game_before_pool_game"]}
COMPONENTS = {"real": ["toqito.nonlocal_games.NonlocalGame.classical_value / process_iteration", "pickle round trip of every chunk", "numpy"], "stub": ["multiprocessing.Pool -> SimPool (discrete-event, in-process, CPython 3.12 chunking and fork-snapshot semantics)", "os.cpu_count (simulated)"]}
RULE = ("one run = a history of 1..3 games (the next one of the same shape and different contents, or a fresh shape; small sequential-branch games mixed in; the first pool game evaluated once more at the end; planted unique optima at adversarial enumeration positions), each with 1001..4096 strategies on the enumerated side (all shape families, unequal alphabets and question counts, 0/1 and fractional predicates, "
        "uniform / skewed / zero-containing question distributions) x one simulated machine and pool configuration (1..61 CPUs / workers, idle-worker choice, chunk durations, stalls -> completion order; Pool and ProcessPoolExecutor both simulated); "
        "non-trivial = pool branch entered with >=2 workers used and >=2 chunks, or the 1-worker / 61-worker edge; distinct = distinct digest of (game, pool event order)")
SHRINK_ORDER = ["config", "game", "fault", "pool", "pool2"]
TOL = 1e-9


def _mod():
    import toqito.nonlocal_games.nonlocal_game as M

    return M


def preload():
    _mod()


def run(cs, tier, run_index):
    M = _mod()
    with isolated_module_state([M], [M.NonlocalGame]):
        return _run(cs, tier, run_index, M)


def _run(cs, tier, run_index, M):
    res = RunResult()
    cfg = cs.s("config")
    fault_run = cfg.draw(10) == 9  # separate population, informational only
    second = cfg.draw(4) == 1 or run_index % 16 == 3
    # a run is a short history of games through the pool: the next game has the same shape and
    # different contents (2 in 3) or a fresh shape; finally the first game is evaluated once more
    n_extra = cfg.weighted([(0, 5), (1, 3), (2, 2)])
    if run_index % 16 == 4:
        n_extra = max(n_extra, 1)
    gs = cs.s("game")
    games = []
    prob, pred, meta = draw_game(gs)
    games.append((prob, pred, meta))
    for j in range(n_extra):
        hs = cs.s(f"game:{j + 1}")
        like = games[-1][2] if hs.draw(3) else None
        games.append(draw_game(hs, like=like))
        if like is not None:
            res.probe("same_shape_game_sequence")
    # small games (sequential branch, at most a few hundred strategies) before / between the pool games:
    # what the sequential branch leaves in module state is what a later pool forks its workers from
    n_small = cfg.weighted([(0, 4), (1, 3), (2, 1)])
    if run_index % 16 == 5:
        n_small = max(n_small, 1)
    for j in range(n_small):
        ss = cs.s(f"small:{j}")
        sp, sv, sm = draw_small_game(ss)
        games.insert(ss.draw(len(games)), (sp, sv, sm))
        res.probe("serial_game_before_pool_game")

    # constructor families that reach the pool branch (own stream: the other games of the run are unchanged):
    # a 2-fold product game of a base game with >= 3 answers per player, and a binary-constraint game over
    # 10..11 variables (Bob's 2**n bit assignments are the enumerated side)
    if run_index % 8 == 5:
        # the best-responding player has 2**63 or more strategies (never enumerated; only the bookkeeping sees the number)
        xs = cs.s("xgame")
        games.append(draw_game(xs, other=[(2, 63), (2, 64), (2, 65), (3, 41), (4, 32), (2, 100)][xs.draw(6)]))
        games[-1][2]["family"] = "lopsided_2^63"
        res.probe("lopsided_pool_game_2^63_strategies")
    elif run_index % 8 == 6:
        games.append(draw_product_pool_game(cs.s("xgame")))
    elif run_index % 8 == 7:
        games.append(draw_bcs_pool_game(cs.s("xgame")))

    fault = None
    if fault_run:
        fs = cs.s("fault")
        fault = {"chunk": fs.draw(8), "task": fs.draw(4)}
    sim = make_sim(cs, res, "pool", [M], [M.NonlocalGame], fault=fault)
    if run_index % 16 == 1:
        sim.cpu_count = 1
    elif run_index % 16 == 2 and tier == "thorough":
        sim.cpu_count = 61

    objs, expected, outcomes = [], [], []
    first_pool = next(i for i, g in enumerate(games) if not g[2].get("small"))
    order = list(range(len(games))) + ([first_pool] if len(games) > 1 else [])
    for pos, gi in enumerate(order):
        prob, pred, meta = games[gi]
        pub = {k: v for k, v in meta.items() if not k.startswith("_")}
        if pos < len(games) and meta.get("small"):
            expected.append(models.classical_value_bf(prob, pred))
            objs.append((M.NonlocalGame(prob, pred), prob.copy(), pred.copy()))
        elif pos < len(games):
            res.probe("transposed_branch" if meta["enumerated"] == "alice" else "untransposed_branch")
            if "planted" in meta:
                res.probe("planted_optimum:" + meta["planted"]["position"])
            if meta["shape"][0] != meta["shape"][1]:
                res.probe("unequal_alphabets")
            expected.append(models.classical_value_bf_vec(prob, pred))
            if "_ctor" in meta:
                built = build_constructed(M, res, prob, pred, meta)
                if built is None:
                    break
                objs.append(built)
                prob, pred = built[1], built[2]
                games[gi] = (prob, pred, meta)
            else:
                objs.append((M.NonlocalGame(prob, pred), prob.copy(), pred.copy()))
        game, prob0, pred0 = objs[gi]
        chunks_before = sim.chunks
        outcome = call(M, game, sim)
        outcomes.append(outcome)
        res.log.add("pool", pos, gi, pub["shape"], pub.get("enumerated"), sim.max_workers, sim.chunks - chunks_before, sim.completion_order[-64:], repr(outcome[1])[:40])
        if fault_run and res.faults.get("worker_memoryerror"):
            # what the call does under an injected worker failure is recorded, never judged
            if outcome[0] == "exc":
                res.probe("fault_outcome:raised_" + outcome[1])
            elif _num(outcome[1]) and abs(float(outcome[1]) - expected[gi]) <= TOL:
                res.probe("fault_outcome:returned_correct")
            else:
                res.probe("fault_outcome:returned_wrong")
            break
        res.checks_sim += 1
        judge(res, "C07.pool.value", outcome, expected[gi], dict(pub, position_in_history=pos, games_in_history=len(games)), sim)
        res.checks_sim += 1
        if not (np.array_equal(game.prob_mat, prob0) and np.array_equal(game.pred_mat, pred0) and np.array_equal(prob, prob0) and np.array_equal(pred, pred0)):
            res.violate("C07.pool.args", why="prob_mat / pred_mat changed by classical_value through the pool", **pub)
            break
    nontrivial = pool_reach(sim, res)
    if len(objs) <= first_pool or len(outcomes) <= first_pool:
        res.case_key = "%016x" % mix("aborted", run_index)
        return res
    prob0, pred0 = objs[first_pool][1], objs[first_pool][2]
    meta0 = {k: v for k, v in games[first_pool][2].items() if not k.startswith("_")}
    outcome = outcomes[first_pool]
    if not fault_run and second and outcome[0] == "ok" and not res.violations:
        sim2 = make_sim(cs, res, "pool2", [M], [M.NonlocalGame])
        out2 = call(M, objs[first_pool][0], sim2)
        pool_reach(sim2, res)
        res.probe("second_pool_config_compared")
        res.checks_sim += 1
        if out2[0] != "ok" or not _num(out2[1]) or abs(float(out2[1]) - float(outcome[1])) > TOL:
            res.violate("C07.pool.config", first=repr(outcome[1])[:60], second=repr(out2[1])[:60], workers=[sim.max_workers, sim2.max_workers], **meta0)
        res.log.add("pool2", sim2.max_workers, sim2.chunks, sim2.completion_order[:64], repr(out2[1])[:40])

    # stub fidelity (thorough tier): the same game through the REAL multiprocessing.Pool must give the
    # model value too.  Not the deciding step: its schedule is not controlled and cannot be replayed.
    if tier == "thorough" and run_index % 500 == 7 and not fault_run:
        try:
            real = ("ok", M.NonlocalGame(prob0.copy(), pred0.copy()).classical_value())
        except Exception as e:
            real = ("exc", type(e).__name__, str(e)[:200])
        res.probe("real_pool_crosscheck")
        res.checks_sim += 1
        res.log.add("real_pool", repr(real[1])[:40])
        if real[0] != "ok" or not _num(real[1]) or abs(float(real[1]) - expected[first_pool]) > TOL:
            res.violate("C07.pool.value", why="REAL multiprocessing.Pool result differs from the enumeration model", real_pool=True, got=repr(real[1])[:60], expected=expected[first_pool], **meta0)
        elif outcome[0] == "ok" and _num(outcome[1]) and abs(float(real[1]) - float(outcome[1])) > TOL:
            raise AssertionError("SimPool and the real pool disagree: %r vs %r" % (outcome[1], real[1]))
    res.nontrivial = nontrivial and not fault_run
    res.case_key = "%016x" % mix([adigest(g[0]) + adigest(g[1]) for g in games], sim.max_workers, tuple(sim.completion_order))
    res.interleaving = "%016x" % mix(sim.max_workers, tuple(sim.completion_order))
    res.sample = {"games": [{k: v for k, v in g[2].items() if not k.startswith("_")} for g in games], "call_order": order, "workers": sim.max_workers, "chunks": sim.chunks, "completion_order_head": sim.completion_order[:16], "stall_permille": sim.stall_permille, "fault_population": fault_run, "values": [repr(o[1])[:24] for o in outcomes], "models": expected}
    return res


PRODUCT_BASES = [(3, 3, 2, 2), (3, 4, 2, 2), (4, 3, 2, 2), (3, 3, 2, 3), (3, 3, 3, 2), (5, 3, 2, 2), (3, 5, 2, 2)]


def draw_product_pool_game(st):
    """NonlocalGame(prob, pred, reps=2) whose product game has 6561 strategies on the enumerated side."""
    shape = PRODUCT_BASES[st.draw(len(PRODUCT_BASES))]
    a_out, b_out, a_in, b_in = shape
    rng = st.nprng()
    kind = st.weighted([("planted", 3), ("binary", 2), ("fractional", 2)])
    if kind == "binary":
        pred = (rng.random(shape) < 0.45).astype(float)
    elif kind == "fractional":
        pred = rng.random(shape)
    else:
        # the product of a planted base optimum is an optimum of the product game; its position in the
        # product enumeration is a mixed-radix interleaving of the base positions
        f, g = rng.integers(0, a_out, size=a_in), rng.integers(0, b_out, size=b_in)
        if st.draw(2):
            f[:] = a_out - 1
            g[:] = b_out - 1  # last strategy of the product enumeration
        pred = rng.random(shape) * 0.35 * (rng.random(shape) < 0.6)
        for x in range(a_in):
            for y in range(b_in):
                pred[f[x], g[y], x, y] = 1.0
    prob = rng.random((a_in, b_in)) ** (1 + st.draw(2)) + (0.0 if st.draw(3) == 0 else 0.02)
    prob = prob / prob.sum()
    pred, dt = maybe_integer_dtype(st, pred, 4)
    reps = np.int64(2) if st.draw(4) == 0 else 2
    eprob, epred = models.product_game(prob, np.asarray(pred, dtype=float), 2)
    pa, pb, px, py = epred.shape
    meta = {"shape": list(epred.shape), "family": "product_reps2", "base_shape": list(shape), "pred_kind": kind, "enumerated": "alice" if pa**px < pb**py else "bob", "strategies": min(pa**px, pb**py), "_ctor": ("reps", prob, pred, reps)}
    if dt is not None:
        meta["pred_dtype"] = dt
    return eprob, epred, meta


def draw_bcs_pool_game(st):
    """from_bcs_game over 10..11 binary variables: Bob (one bit per variable question) has 2**n > 1000
    strategies and is the enumerated player; Alice answers with a full assignment."""
    n = 10 + (st.draw(4) == 0)
    m = st.int_range(2, 4)
    rng = st.nprng()
    cons = []
    kind = st.weighted([("frustrated_parity", 3), ("random_local", 3)])
    vars_used, parities = [], []
    idx = np.indices((2,) * n)
    for j in range(m):
        k = st.int_range(1, 3)
        repeat = kind == "frustrated_parity" and j > 0 and st.draw(2)
        if repeat:
            src = st.draw(len(vars_used))
            vs = list(vars_used[src])  # the same variables again with the other parity: not both satisfiable
        else:
            vs = sorted(int(v) for v in rng.choice(n, size=k, replace=False))
        if kind == "frustrated_parity":
            want = 1 - parities[src] if repeat else st.draw(2)
            parities.append(want)
            c = ((sum(idx[v] for v in vs) % 2) == want).astype(float)
        else:
            parities.append(None)
            while True:
                tt = (rng.random((2,) * len(vs)) < 0.5).astype(float)
                if 0 < tt.sum() < tt.size:
                    break
            c = tt[tuple(idx[v] for v in vs)]
        vars_used.append(vs)
        if st.draw(3) == 0:
            c = np.asfortranarray(c)
        cons.append(c)
    from .c07_hist import bcs_model

    eprob, epred = bcs_model([np.ascontiguousarray(c) for c in cons])
    meta = {"shape": list(epred.shape), "family": "bcs_pool", "variables": n, "constraints": m, "constraint_variables": vars_used, "pred_kind": kind, "enumerated": "bob", "strategies": 2**n, "_ctor": ("bcs", cons)}
    return eprob, epred, meta


def build_constructed(M, res, eprob, epred, meta):
    """Build the object through its constructor and judge the constructor clause on it (the same invariants
    engine B applies to small games); returns (game, stored prob copy, stored pred copy) or None."""
    ctor = meta["_ctor"]
    pub = {k: v for k, v in meta.items() if not k.startswith("_")}
    inv = "C07.ctor.reps" if ctor[0] == "reps" else "C07.ctor.bcs"
    try:
        if ctor[0] == "reps":
            game = M.NonlocalGame(np.array(ctor[1]), np.array(ctor[2]), ctor[3])
        else:
            game = M.NonlocalGame.from_bcs_game([c.copy(order="K") for c in ctor[1]], 1)
    except Exception as e:
        res.violate(inv, why="constructor raised on a valid game", exc=type(e).__name__, msg=str(e)[:200], **pub)
        return None
    res.checks_workload += 1
    res.probe("pool_game_from_constructor:" + ctor[0])
    if np.shape(game.prob_mat) != eprob.shape or np.shape(game.pred_mat) != epred.shape or not np.allclose(game.prob_mat, eprob, atol=1e-12) or not np.allclose(game.pred_mat, epred, atol=1e-12):
        res.violate(inv, why="stored tensors differ from the %s" % ("r-fold product formula" if ctor[0] == "reps" else "BCS definition"), **pub)
        return None
    return game, np.array(game.prob_mat, copy=True), np.array(game.pred_mat, copy=True)


MEDIUM_SHAPES = [(2, 9), (3, 6), (5, 4), (7, 3), (9, 3), (31, 2), (2, 8), (3, 5), (6, 3)]


def draw_small_game(st):
    """A game of the sequential branch: 2..3 answers, 2..3 questions per player."""
    a_out, b_out, a_in, b_in = st.int_range(2, 3), st.int_range(2, 3), st.int_range(2, 3), st.int_range(2, 3)
    if st.draw(4) == 0:
        # the upper end of the sequential branch: a few hundred strategies of the enumerated player (the pool
        # takes over above 1000), where a blocked or batched enumeration would need more than one block
        eo, ei = MEDIUM_SHAPES[st.draw(len(MEDIUM_SHAPES))]
        oo, oi = [(o, i) for (o, i) in [(4, 5), (6, 4), (2, 10), (3, 7), (11, 3), (32, 2)] if o**i > eo**ei][st.draw(3)]
        if st.draw(2):
            a_out, a_in, b_out, b_in = eo, ei, oo, oi
        else:
            a_out, a_in, b_out, b_in = oo, oi, eo, ei
    rng = st.nprng()
    kind = st.draw(4)
    shape = (a_out, b_out, a_in, b_in)
    if kind == 0:  # won with certainty: the largest value any game can have
        f, g = rng.integers(0, a_out, size=a_in), rng.integers(0, b_out, size=b_in)
        pred = rng.random(shape) * 0.2
        for x in range(a_in):
            for y in range(b_in):
                pred[f[x], g[y], x, y] = 1.0
    elif kind == 1:
        pred = (rng.random(shape) < 0.5).astype(float)
    elif kind == 2:
        pred = rng.random(shape)
    prob = rng.random((a_in, b_in)) + 0.05
    prob = prob / prob.sum()
    if kind == 3:
        prob, pred, _ = symmetric_game(st, rng, shape, prob)
    pred, _ = maybe_integer_dtype(st, pred)
    return prob, pred, {"shape": list(shape), "small": True, "pred_kind": ["won_with_certainty", "binary", "fractional", "symmetric"][kind], "pred_dtype": str(pred.dtype), "enumerated": None, "strategies": min(a_out**a_in, b_out**b_in)}


def call(M, game, sim):
    with patched_mp(M, sim):
        try:
            return ("ok", game.classical_value())
        except Exception as e:
            return ("exc", type(e).__name__, str(e)[:200])


def _num(v):
    try:
        return bool(np.isfinite(float(v)))
    except Exception:
        return False


def judge(res, inv, outcome, expected, meta, sim):
    if outcome[0] != "ok":
        res.violate(inv, why="exception", exc=outcome[1], msg=outcome[2], workers=sim.max_workers, chunks=sim.chunks, **meta)
    elif not _num(outcome[1]):
        res.violate(inv, why="not a finite number", got=repr(outcome[1])[:60], workers=sim.max_workers, chunks=sim.chunks, **meta)
    elif abs(float(outcome[1]) - expected) > TOL:
        res.violate(inv, why="value differs from enumeration model", got=float(outcome[1]), expected=expected, workers=sim.max_workers, chunks=sim.chunks, pool_entered=sim.pools > 0, **meta)
