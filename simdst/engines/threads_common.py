"""Interleaved callers with their OWN objects (engines T8, HT, T7, T9).

Two or three client threads run under the baton-passing scheduler of simdst/sched.py; every Python line of
library code is a pre-emption point, so the choice source decides exactly where one caller is suspended while
another one enters the library.  No object, list or array is shared between the clients: whatever one caller
can observe of another one goes through state the LIBRARY keeps (module-level tables, caches, memoised
problems, class attributes).  Reference model: every call of the run evaluated beforehand in a quiescent
single thread on a pristine library; the value a client obtains while others are inside the library must be
that value.  Third-party solvers are never pre-empted (only frames of toqito files yield)."""

from __future__ import annotations

import os
import warnings

import numpy as np

from ..driver import pristine_library_state
from ..sched import Scheduler
from .hist_common import SAME, SOLVER_FAILURES, _library_prefix


def _call(fn):
    with warnings.catch_warnings():
        warnings.simplefilter("ignore")
        try:
            v = fn()
            f = float(np.real(v))
            return ("ok", f) if np.isfinite(f) else ("fail", "non_finite")
        except Exception as e:  # judged below
            return ("exc", type(e).__name__, str(e)[:160])


def run_clients(cs, res, prop, clients, wall):
    """clients: list (one per client) of lists of (label, make_fn, meta); make_fn() builds the client's OWN
    objects from scratch and returns the zero-argument call.  Returns (scheduler, results)."""
    inv = prop + ".conc.value"
    # quiescent references, each in a pristine library
    refs = []
    for ops in clients:
        row = []
        for label, make_fn, meta in ops:
            with pristine_library_state():
                row.append(_call(make_fn()))
        refs.append(row)
    cfg = cs.s("config")
    switch_permille = [30, 120, 400, 900][cfg.draw(4)]
    results = [[None] * len(ops) for ops in clients]

    def make_client(i):
        fns = [make_fn() for (_, make_fn, _) in clients[i]]  # own objects, built before the threads start

        def body(yield_fn):
            for k, fn in enumerate(fns):
                results[i][k] = _call(fn)
                yield_fn()

        return body

    sch = Scheduler(cs.s("sched"), switch_permille, [_library_prefix()], step_cap=6000, log=res.log)
    for i in range(len(clients)):
        sch.add(f"c{i}", make_client(i))
    sch.run(wall_timeout=wall)
    compared = 0
    for i, ops in enumerate(clients):
        for k, (label, _, meta) in enumerate(ops):
            got, ref = results[i][k], refs[i][k]
            res.log.add("result", i, k, label, got[1:] if got else None, ref[1:])
            if ref[0] != "ok":
                res.failed(f"{label}:reference_{ref[1]}")
                continue
            if got is None:
                continue
            res.checks_sim += 1
            compared += 1
            if got[0] == "exc" and got[1] in SOLVER_FAILURES:
                res.failed(f"{label}:{got[1]}")
                continue
            if got[0] != "ok":
                res.violate(inv, why="the call failed while another caller was inside the library; alone it returns a value", call=label, client=i, got=list(got[1:]), quiescent=ref[1], switches=sch.switches_inside, **meta)
            elif abs(got[1] - ref[1]) > SAME:
                res.violate(inv, why="value obtained while another caller was inside the library differs from the value of the same call made alone", call=label, client=i, got=got[1], quiescent=ref[1], switches=sch.switches_inside, **meta)
    if sch.switches_inside:
        res.probe("switch_inside_library_call", sch.switches_inside)
    res.probe("interleaved_calls_compared", compared)
    res.interleaving = sch.interleaving_digest()
    res.sim_time = float(sch.steps)
    res.nontrivial = bool(sch.switches_inside and compared >= 2)
    return sch, results
