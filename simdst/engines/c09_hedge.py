"""C09 engine B9h: one QuantumHedging object, its four value methods in any order.

Sim-decided: the object (and the caller's operator) is unchanged by every call and values do not depend on
call order or on other hedging objects used in between.  Workload invariants: primal = dual for the maximal and
the minimal probability, max >= min, both agree with an own primal/dual pair, and values for two independent
repetitions are consistent with the single-shot optimum."""

from __future__ import annotations

import json

import numpy as np

from .. import models
from ..core import RunResult, adigest, mix
from ..driver import pristine_library_state
from .hist_common import SAME, TAU, quiet
from .hist_common import call_value as _call_value, maybe_interrupted_call

NAME = "B9h"
PROPERTY = "C09"
RUNS = {"quick": 200, "thorough": 6000}
RUN_WALL_CAP = 240.0
REQUIRED_PROBES = {"quick": ["complex_operator", "two_repetitions", "method_repeated", "product_operator", "two_objects_same_shape", "model_compared"], "thorough": ["complex_operator", "two_repetitions", "method_repeated", "product_operator", "two_objects_same_shape", "model_compared"]}
COMPONENTS = {"real": ["toqito.nonlocal_games.QuantumHedging (max/min_prob_outcome_a_primal/dual)", "toqito.channels.partial_trace (cvxpy branch)", "toqito.perms.permutation_operator", "cvxpy + SCS/Clarabel"], "stub": []}
RULE = ("one run = one QuantumHedging object (1 or 2 repetitions; operator Q random PSD of norm <= 1, rank one, the Molina-Watrous family, or a product Q1 (x) Q1; real and complex), sometimes a second object of the "
        "same size used in between, and 3..6 calls of the four value methods in seeded order with repetition; non-trivial = >=2 distinct methods, one repeated, and 0 < min < max; distinct = distinct digest of (Q, repetitions, operation sequence)")
SHRINK_ORDER = ["config", "game", "ops", "intr"]
METHODS = ["max_prob_outcome_a_primal", "max_prob_outcome_a_dual", "min_prob_outcome_a_primal", "min_prob_outcome_a_dual"]


def call_value(fn, res, label):
    return _call_value(fn, res, label, prop="C09")



def _mod():
    import toqito.nonlocal_games.quantum_hedging as H

    return H


def preload():
    _mod()
    import cvxpy  # noqa: F401


def rpsd(rng, n, cplx, rank=None):
    g = rng.standard_normal((n, rank or n)) + (1j * rng.standard_normal((n, rank or n)) if cplx else 0)
    m = g @ g.conj().T
    return m / np.linalg.norm(m, 2)


def draw_q(st, like=None):
    n = like["reps"] if like else st.weighted([(1, 3), (2, 2)])
    cplx = like["complex"] if like else bool(st.draw(2))
    rng = st.nprng()
    kind = st.weighted([("random_psd", 3), ("rank_one", 2), ("molina_watrous", 2), ("product", 3 if n == 2 else 0), ("scaled", 1)])
    q1 = None
    if kind == "molina_watrous":
        a = 0.1 + 1.3 * rng.random()
        v = np.array([np.cos(a), 0, 0, np.sin(a)], dtype=complex if cplx else float)
        if cplx:
            v = v * np.exp(1j * rng.random(4) * 2 * np.pi)
        q1 = np.outer(v, v.conj())
        q = q1 if n == 1 else np.kron(q1, q1)
        kind = "molina_watrous" if n == 1 else "product"
    elif kind == "product":
        q1 = rpsd(rng, 4, cplx, rank=1 + st.draw(4))
        q = np.kron(q1, q1)
    elif kind == "rank_one":
        q = rpsd(rng, 4**n, cplx, rank=1)
    elif kind == "scaled":
        q = rpsd(rng, 4**n, cplx) * (0.1 + 0.9 * rng.random())
    else:
        q = rpsd(rng, 4**n, cplx)
    return q, q1, {"reps": n, "complex": cplx, "kind": kind}


def run(cs, tier, run_index):
    quiet()
    res = RunResult()
    H = _mod()
    cfg = cs.s("config")
    q, q1, meta = draw_q(cs.s("game"))
    n = meta["reps"]
    if meta["complex"]:
        res.probe("complex_operator")
    if n == 2:
        res.probe("two_repetitions")
    if q1 is not None and n == 2:
        res.probe("product_operator")
    q0 = q.copy()

    def build():
        qq = q0.copy()
        return H.QuantumHedging(qq, n), qq

    try:
        obj, caller = build()
    except Exception as e:
        res.violate("C09.hedge.state", why="constructor raised on a valid operator", exc=type(e).__name__, msg=str(e)[:200], **meta)
        return res
    obj_shadow = np.array(obj._q_a, copy=True) if hasattr(obj, "_q_a") else None  # the object right after construction
    interloper = None
    if cfg.draw(3) == 2 or run_index % 8 == 7:
        q2, _, _ = draw_q(cs.s("game:2"), like=meta)
        interloper = H.QuantumHedging(q2, n)
        res.probe("two_objects_same_shape")

    st = cs.s("ops")
    names = [METHODS[st.draw(4)] for _ in range(st.int_range(3, 6))]
    pristine, vals = {}, {}
    for k, nm in enumerate(names):
        if interloper is not None and st.draw(2):
            call_value(getattr(interloper, nm), res, nm + "(other object)")
        maybe_interrupted_call(cs, res, getattr(obj, nm))
        out = call_value(getattr(obj, nm), res, nm)
        res.log.add("op", k, nm, out[1] if out[0] == "ok" else out[:2])
        res.checks_sim += 1
        try:
            same = (obj_shadow is None or _same(obj._q_a, obj_shadow)) and _same(caller, q0) and obj._num_reps == n
        except AttributeError:
            same = _same(caller, q0)  # private attributes may be renamed by a refactor; the caller's array may not change
        if not same:
            res.violate("C09.hedge.state", why="hedging object or the caller's operator changed", after=nm, position=k, history=names[:k + 1], **meta)
            break
        if out[0] != "ok":
            continue
        v = out[1]
        if k == 0:
            pristine[nm] = v
        else:
            if nm not in pristine:
                with pristine_library_state():
                    o2 = call_value(getattr(build()[0], nm), res, nm + "(pristine)")
                pristine[nm] = o2[1] if o2[0] == "ok" else None
            if pristine[nm] is not None:
                res.checks_sim += 1
                if abs(pristine[nm] - v) > 1e-5:
                    res.violate("C09.hedge.order", op=nm, position=k, history=names[:k + 1], after_history=v, pristine=pristine[nm], **meta)
        vals.setdefault(nm, []).append(v)

    mx = vals.get("max_prob_outcome_a_primal", []) + vals.get("max_prob_outcome_a_dual", [])
    mn = vals.get("min_prob_outcome_a_primal", []) + vals.get("min_prob_outcome_a_dual", [])
    for a, b, what in (("max_prob_outcome_a_primal", "max_prob_outcome_a_dual", "maximal"), ("min_prob_outcome_a_primal", "min_prob_outcome_a_dual", "minimal")):
        if a in vals and b in vals:
            res.checks_workload += 1
            res.margin("hedge_primal_dual", (max(abs(x - y) for x in vals[a] for y in vals[b])) / TAU)
            if max(abs(x - y) for x in vals[a] for y in vals[b]) > TAU:
                res.violate("C09.hedge.primal_dual", which=what, primal=vals[a], dual=vals[b], **meta)
    if mx and mn:
        res.checks_workload += 1
        if min(mx) < max(mn) - TAU:
            res.violate("C09.hedge.max_ge_min", maximal=min(mx), minimal=max(mn), **meta)
    # own primal/dual pair
    for lst, maximise, what in ((mx, True, "maximal"), (mn, False, "minimal")):
        if lst:
            mod = models.hedging_model(q0, n, maximise)
            if mod is None or abs(mod[0] - mod[1]) > 1e-4:
                res.failed("model:hedging_sdp")
                continue
            res.probe("model_compared")
            res.checks_workload += 1
            lo, hi = min(mod) - TAU, max(mod) + TAU
            if min(lst) < lo or max(lst) > hi:
                res.violate("C09.hedge.model", which=what, library=lst, own_primal=mod[0], own_dual=mod[1], **meta)
            # two independent repetitions of Q1: playing the single-shot optimum twice is a strategy
            if q1 is not None and n == 2:
                one = models.hedging_model(q1, 1, maximise)
                if one is not None and abs(one[0] - one[1]) <= 1e-4:
                    res.checks_workload += 1
                    single = (one[0] + one[1]) / 2
                    if maximise and max(lst) < single**2 - TAU:
                        res.violate("C09.hedge.reps", which=what, two_repetitions=max(lst), single_shot_squared=single**2, **meta)
                    if not maximise and min(lst) > single**2 + TAU:
                        res.violate("C09.hedge.reps", which=what, two_repetitions=min(lst), single_shot_squared=single**2, **meta)
    if len(names) > len(set(names)):
        res.probe("method_repeated")
    res.nontrivial = len(set(names)) >= 2 and len(names) > len(set(names)) and bool(mx) and bool(mn) and 1e-6 < max(mn) < min(mx) - 1e-6
    res.case_key = "%016x" % mix(adigest(q0), n, tuple(names))
    res.sample = {"operator": meta, "ops": names, "values": {k: [round(x, 6) for x in v] for k, v in vals.items()}}
    return res


def _same(a, b):
    a = np.asarray(a)
    return a.shape == b.shape and a.dtype == b.dtype and a.tobytes() == b.tobytes()
