"""C08 engine T8: two or three callers, each with its own XORGame objects, interleaved at line granularity."""

from __future__ import annotations

import json

import numpy as np

from ..core import RunResult, mix
from .c08_hist import _mods, draw_game, op_fn
from .hist_common import quiet
from .threads_common import run_clients

NAME = "T8"
PROPERTY = "C08"
RUNS = {"quick": 64, "thorough": 6000}
RUN_WALL_CAP = 90.0
REQUIRED_PROBES = {"quick": ["same_size_games_in_two_clients", "interleaved_calls_compared"], "thorough": ["same_size_games_in_two_clients", "interleaved_calls_compared"]}
COMPONENTS = {"real": ["toqito.nonlocal_games.XORGame value methods called from 2..3 real threads (own objects each)", "cvxpy + SCS/Clarabel (never pre-empted)"], "stub": ["thread scheduling: baton passing, pre-emption at every Python line of toqito code, decided by the choice source"]}
RULE = ("one run = 2..3 client threads, each owning 1..3 XORGame objects (sizes 1..9 per side, the clients' games often of the same size and different contents) and calling classical / quantum / non-signaling value on them, "
        "interleaved by the seeded scheduler; reference = the same call made alone on a pristine library; non-trivial = at least one switch inside a library call and >= 2 values compared; distinct = distinct (workload, interleaving) digest")
SHRINK_ORDER = ["config", "game", "ops", "sched"]


def preload():
    _mods()
    import cvxpy  # noqa: F401


def run(cs, tier, run_index):
    quiet()
    res = RunResult()
    M, X = _mods()
    cfg = cs.s("config")
    n_clients = 2 + (cfg.draw(3) == 0)
    clients, desc = [], []
    first_meta = None
    for i in range(n_clients):
        gs = cs.s(f"game:{i}")
        ops = []
        for j in range(gs.int_range(1, 3)):
            like = first_meta if (first_meta is not None and gs.draw(3) != 0) else None
            prob, pred, reps, meta = draw_game(gs, like=like)
            if like is not None and i > 0:
                res.probe("same_size_games_in_two_clients")
            if first_meta is None:
                first_meta = meta
            nm = gs.weighted([("classical", 5), ("quantum", 3), ("nonsignaling", 1)])
            if nm != "quantum" and reps > 1 and ((2**reps) ** (min(prob.shape) ** reps) > 600 or nm == "nonsignaling"):
                reps = 1  # the pool branch and large LPs belong to the other engines
            pub = dict(meta, reps=int(reps))

            def make_fn(prob=prob, pred=pred, reps=reps, nm=nm):
                return op_fn(X.XORGame(prob.copy(), pred.copy(), reps), nm)

            ops.append((nm, make_fn, pub))
            desc.append([i, nm, pub])
        clients.append(ops)
    sch, results = run_clients(cs, res, "C08", clients, RUN_WALL_CAP - 10)
    res.case_key = "%016x" % mix(json.dumps(desc, sort_keys=True, default=str), res.interleaving)
    res.sample = {"clients": desc, "switches_inside_library": sch.switches_inside, "values": [[r[1] if r and r[0] == "ok" else None for r in row] for row in results]}
    return res
