"""C07 engine B: one NonlocalGame object, value methods in any order.

After every operation: the object's tensors (and the caller's arrays) are
byte-identical to shadow copies; the value equals the value of the same
operation on a pristine object (lower bounds under the same entropy); the
classical value equals the enumeration model, the non-signaling value the LP
model; every pair of values seen so far obeys the ordering chain."""

from __future__ import annotations

import itertools
import json

import numpy as np

from .. import models
from ..core import RunResult, adigest, mix
from ..driver import pristine_library_state
from .hist_common import SAME, TAU, clone, contain, draw_container, quiet, with_entropy
from .hist_common import call_value as _call_value, maybe_interrupted_call
from .pool_common import maybe_integer_dtype, symmetric_game


def call_value(fn, res, label):
    return _call_value(fn, res, label, prop="C07")


NAME = "B"
PROPERTY = "C07"
RUNS = {"quick": 160, "thorough": 4000}
RUN_WALL_CAP = 240.0
REQUIRED_PROBES = {"quick": ["other_container", "three_distinct_methods", "method_repeated", "lower_bound_obtained", "two_lower_bounds_different_entropy", "npa_obtained", "reps2_game", "bcs_game", "unequal_alphabets", "value_strictly_inside", "two_objects_same_shape"], "thorough": ["three_distinct_methods", "method_repeated", "lower_bound_obtained", "two_lower_bounds_different_entropy", "npa_obtained", "npa2_obtained", "reps2_game", "bcs_game", "unequal_alphabets", "value_strictly_inside", "two_objects_same_shape"]}
COMPONENTS = {"real": ["toqito.nonlocal_games.NonlocalGame (constructor, from_bcs_game, classical_value, nonsignaling_value, commuting_measurement_value_upper_bound, quantum_value_lower_bound)", "toqito.helper.npa_constraints / update_odometer", "toqito.matrix_ops.tensor", "toqito.rand.random_povm", "cvxpy + SCS/Clarabel"], "stub": ["OS entropy for the see-saw start (numpy.random.bit_generator.randbits -> choice source)"]}
RULE = ("one run = one or two game objects of the same shape and different contents (1..3 answers x 1..3 questions per player, unequal allowed; reps 2 for <=2x2x2x2; or from_bcs_game with 1..3 constraints over 2..3 variables) and 3..8 value-method calls (some first attempted and aborted by an injected interrupt inside library code; sometimes a third object with byte-identical buffers read in another shape; lopsided games where one player has >= 2**63 strategies) "
        "in seeded order with repetition (classical, non-signaling, NPA level 1 / '1+ab' / 2, see-saw lower bound under seeded entropy); non-trivial = >=2 distinct methods, at least one repeated, "
        "some value strictly between 0 and 1; distinct = distinct digest of (game, operation sequence, entropy values)")
SHRINK_ORDER = ["config", "game", "ops", "intr"]  # "game:2", "ops:which" sort after these


def _mod():
    import toqito.nonlocal_games.nonlocal_game as M

    return M


def preload():
    _mod()
    import cvxpy  # noqa: F401
    import scipy.optimize  # noqa: F401


# ----------------------------------------------------------------------------
# workload
# ----------------------------------------------------------------------------

def draw_tensor_game(st, max_out=3, max_in=3, like=None):
    # bias towards games that are not trivially won: mostly >= 2 answers and >= 2 questions
    outs = [(2, 5), (3, 3), (1, 1)] if max_out >= 3 else [(2, 5), (1, 1)]
    ins = [(2, 4), (3, 3), (1, 2)] if max_in >= 3 else [(2, 4), (1, 2)]
    a_out, b_out = st.weighted(outs), st.weighted(outs)
    a_in, b_in = st.weighted(ins), st.weighted(ins)
    if like is not None:
        a_out, b_out, a_in, b_in = like["shape"]
    rng = st.nprng()
    shape = (a_out, b_out, a_in, b_in)
    pk = st.weighted([("binary", 4), ("fractional", 3), ("sparse_binary", 2), ("functional", 3), ("symmetric", 3)])
    if pk == "binary":
        pred = (rng.random(shape) < 0.5).astype(float)
    elif pk == "sparse_binary":
        pred = (rng.random(shape) < 0.25).astype(float)
    elif pk == "fractional":
        pred = rng.random(shape)
    elif pk == "symmetric":
        pred = None
    else:
        # win iff (a + b) mod m == f(x, y): generalised XOR-like games, usually with a quantum gap
        m = max(a_out, b_out)
        f = rng.integers(0, m, size=(a_in, b_in))
        pred = np.zeros(shape)
        for a, b, x, y in itertools.product(range(a_out), range(b_out), range(a_in), range(b_in)):
            pred[a, b, x, y] = float((a + b) % m == f[x, y])
    qk = st.weighted([("uniform", 3), ("dirichlet", 3), ("with_zeros", 2)])
    if qk == "uniform":
        prob = np.full((a_in, b_in), 1.0 / (a_in * b_in))
    else:
        prob = rng.random((a_in, b_in)) ** 2 + 1e-3
        if qk == "with_zeros":
            prob = prob * (rng.random((a_in, b_in)) < 0.6)
            if prob.sum() == 0:
                prob[0, 0] = 1.0
        prob = prob / prob.sum()
    meta = {"kind": "tensor", "shape": list(shape), "pred_kind": pk, "prob_kind": qk}
    if pk == "symmetric":
        prob, pred, meta["symmetric"] = symmetric_game(st, rng, shape, prob)
    pred, dt = maybe_integer_dtype(st, pred)
    if dt is not None:
        meta["pred_dtype"] = dt
    return prob, pred, meta


def draw_bcs(st, like=None):
    nvars = st.int_range(2, 3)
    ncons = st.int_range(1, 3)
    if like is not None:
        nvars, ncons = like["variables"], like["constraints"]
    rng = st.nprng()
    cons = []
    for _ in range(ncons):
        while True:
            c = (rng.random((2,) * nvars) < 0.5).astype(float)
            if 0 < c.sum() < c.size:  # non-constant: depends on at least one variable
                break
        cons.append(c)
    return cons, {"kind": "bcs", "variables": nvars, "constraints": ncons}


def bcs_model(cons):
    m = len(cons)
    n = cons[0].ndim
    dep = np.zeros((m, n))
    for j, c in enumerate(cons):
        for i in range(n):
            moved = np.moveaxis(c, i, 0)
            dep[j, i] = float(np.any(moved[0] != moved[1]))
    prob = np.zeros((m, n))
    for j in range(m):
        prob[j] = (1.0 / m) * dep[j] / dep[j].sum()
    pred = np.zeros((2**n, 2, m, n))
    for x in range(m):
        for a in range(2**n):
            bits = tuple((a >> (n - 1 - k)) & 1 for k in range(n))
            if cons[x][bits] == 1:
                for y in range(n):
                    pred[a, bits[y], x, y] = 1.0
    return prob, pred


OPS = ["classical", "nonsignaling", "npa1", "npa1ab", "npa2", "lower_bound"]


def npa_cost(shape, level):
    a_out, b_out, a_in, b_in = shape
    na, nb = (a_out - 1) * a_in, (b_out - 1) * b_in
    if level == "npa1":
        return 1 + na + nb
    if level == "npa1ab":
        return 1 + na + nb + na * nb
    return 1 + na + nb + na * nb + na * na + nb * nb


def draw_ops(st, shape, tier):
    n = st.int_range(3, 8 if tier == "thorough" else 6)
    ops = []
    limit2 = 60 if tier == "thorough" else 26
    for _ in range(n):
        name = st.weighted([("classical", 3), ("lower_bound", 4), ("npa1", 3), ("nonsignaling", 2), ("npa1ab", 2), ("npa2", 2)])
        if name in ("npa1", "npa1ab", "npa2") and npa_cost(shape, name) > (limit2 if name == "npa2" else 70):
            name = "npa1" if npa_cost(shape, "npa1") <= 70 else "classical"
        if name == "nonsignaling" and shape[0] * shape[1] * shape[2] * shape[3] > 150:
            name = "classical"
        op = {"op": name}
        if name == "lower_bound":
            if shape[0] * shape[2] + shape[1] * shape[3] > 20:
                op = {"op": "classical"}
            else:
                op["entropy"] = st.draw(1 << 20) + 1
                op["iters"] = 1 + (st.draw(4) == 3)
        ops.append(op)
    return ops


def apply(game, op):
    name = op["op"]
    if name == "classical":
        return game.classical_value
    if name == "nonsignaling":
        return game.nonsignaling_value
    if name == "npa1":
        return lambda: game.commuting_measurement_value_upper_bound(1)
    if name == "npa1ab":
        return lambda: game.commuting_measurement_value_upper_bound("1+ab")
    if name == "npa2":
        return lambda: game.commuting_measurement_value_upper_bound(2)
    if name == "lower_bound":
        return lambda: game.quantum_value_lower_bound(dim=2, iters=op["iters"])
    raise KeyError(name)


def opkey(op):
    return json.dumps(op, sort_keys=True)


# ----------------------------------------------------------------------------
# the run
# ----------------------------------------------------------------------------

class Subject:
    """One game object of the history with its shadows and reference models."""


def reshaped_twin(st, sub0):
    """The SAME numbers in the same order read as a game of ANOTHER shape: question counts exchanged
    (X, Y) -> (Y, X) and / or answer counts exchanged, by reshaping, not transposing.  A different game whose
    buffers are byte-identical to the first one's - what a key made of the contents alone cannot tell apart."""
    a, b, x, y = sub0.base_pred.shape
    opts = []
    if x != y:
        opts.append((a, b, y, x))
    if a != b:
        opts.append((b, a, x, y))
    if x != y and a != b:
        opts.append((b, a, y, x))
    if not opts:
        return None
    shape = opts[st.draw(len(opts))]
    prob = np.ascontiguousarray(sub0.base_prob).reshape(shape[2], shape[3]).copy()
    pred = np.ascontiguousarray(sub0.base_pred).reshape(shape).copy()
    meta = {"kind": "tensor", "shape": list(shape), "pred_kind": "reshaped_twin_of_object_0", "prob_kind": sub0.meta.get("prob_kind")}
    return prob, pred, meta


def make_subject(M, res, kind, gs, like=None, given=None):
    sub = Subject()
    sub.kind, sub.reps = kind, 1
    if given is not None:
        sub.base_prob, sub.base_pred, sub.meta = given
        sub.exp_prob, sub.exp_pred = models.product_game(sub.base_prob, sub.base_pred, 1)
        sub.forms = [draw_container(gs), draw_container(gs)]
        sub.reps_arg = 1
    elif kind == "bcs":
        sub.base_cons, sub.meta = draw_bcs(gs, like=like)
        sub.exp_prob, sub.exp_pred = bcs_model(sub.base_cons)
    else:
        if kind == "reps2":
            sub.base_prob, sub.base_pred, sub.meta = draw_tensor_game(gs, 2, 2, like=like)
            sub.reps = 2
            sub.meta["reps"] = 2
        else:
            sub.base_prob, sub.base_pred, sub.meta = draw_tensor_game(gs, like=like)
        sub.exp_prob, sub.exp_pred = models.product_game(sub.base_prob, sub.base_pred, sub.reps)
        sub.forms = [draw_container(gs), draw_container(gs)]
        if sub.forms != ["array", "array"]:
            sub.meta["containers"] = sub.forms
            res.probe("other_container")
        sub.reps_arg = sub.reps
        if gs.draw(3) == 0:
            sub.reps_arg = np.int64(sub.reps)  # what `for r in np.arange(1, 4)` hands over
            sub.meta["reps_type"] = "np.int64"
    if kind == "bcs":
        sub.forms = [gs.weighted([("array", 3), ("fortran", 2), ("view", 1), ("transposed_twice", 1)]) for _ in sub.base_cons]
        if any(f != "array" for f in sub.forms):
            sub.meta["containers"] = sub.forms
            res.probe("other_container")

    def build():
        """Fresh object from fresh copies of the generated data."""
        if kind == "bcs":
            cons = [np.ascontiguousarray(c.T).T if f == "transposed_twice" else contain(c, f) for c, f in zip(sub.base_cons, sub.forms)]
            return M.NonlocalGame.from_bcs_game(cons, 1), cons
        p, v = contain(sub.base_prob, sub.forms[0]), contain(sub.base_pred, sub.forms[1])
        return M.NonlocalGame(p, v, sub.reps_arg), (p, v)

    sub.build = build
    try:
        sub.game, sub.caller = build()
    except Exception as e:
        res.violate("C07.ctor.reps" if kind != "bcs" else "C07.ctor.bcs", why="constructor raised on a valid game", exc=type(e).__name__, msg=str(e)[:200], **_pub(sub.meta))
        return None
    sub.shape = tuple(int(x) for x in np.shape(sub.game.pred_mat))
    sub.meta["game_shape"] = list(sub.shape)
    # constructor clauses (workload invariants)
    res.checks_workload += 1
    inv = "C07.ctor.bcs" if kind == "bcs" else "C07.ctor.reps"
    g = sub.game
    if np.shape(g.prob_mat) != sub.exp_prob.shape or np.shape(g.pred_mat) != sub.exp_pred.shape or not np.allclose(g.prob_mat, sub.exp_prob, atol=1e-12) or not np.allclose(g.pred_mat, sub.exp_pred, atol=1e-12):
        res.violate(inv, why="stored tensors differ from the %s" % ("BCS definition" if kind == "bcs" else "r-fold product formula"), **_pub(sub.meta))
        return None
    sub.shadow_prob, sub.shadow_pred = np.array(g.prob_mat, copy=True), np.array(g.pred_mat, copy=True)
    sub.shadow_caller = [np.array(c, copy=True) for c in sub.caller]
    sub.cl_model = models.classical_value_bf(sub.exp_prob, sub.exp_pred)
    sub.ns_model = None
    sub.pristine, sub.values, sub.used = {}, [], False
    return sub


def cfg_twin(cs):
    return cs.s("config:twin").draw(5) == 0


def _pub(meta):
    return {k: v for k, v in meta.items() if not k.startswith("_")}


def run(cs, tier, run_index):
    quiet()
    res = RunResult()
    M = _mod()
    cfg = cs.s("config")
    kind = cfg.weighted([("tensor", 6), ("bcs", 2), ("reps2", 2)])
    if run_index % 8 == 5:
        kind = "bcs"
    elif run_index % 8 == 6:
        kind = "reps2"
    # one or two game objects of the same shape and different contents live in the same history:
    # anything the library keeps between calls (a cache keyed on shape, say) meets a different game
    two = cfg.draw(3) == 2 or run_index % 8 == 7
    first_like = None
    if run_index % 16 == 13:
        # a lopsided game: one player has 2**63 or more deterministic strategies (63..66 binary or 40..42 ternary
        # questions) which are never enumerated - the other one has a handful; only the bookkeeping sees the big number
        kind = "tensor"
        ls = cs.s("game:lopsided")
        big = [(2, 63), (2, 64), (2, 65), (2, 66), (3, 40), (3, 41), (3, 42), (4, 32), (2, 128)][ls.draw(9)]
        small = (ls.int_range(2, 3), ls.int_range(1, 2))
        shp = (big[0], small[0], big[1], small[1]) if ls.draw(2) else (small[0], big[0], small[1], big[1])
        first_like = {"shape": list(shp)}
        res.probe("lopsided_game_2^63_strategies")
    subs = [make_subject(M, res, kind, cs.s("game"), like=first_like)]
    if subs[0] is None:
        return res
    if two:
        s2 = make_subject(M, res, kind, cs.s("game:2"), like=subs[0].meta)
        if s2 is None:
            return res
        subs.append(s2)
        res.probe("two_objects_same_shape")
    if kind == "tensor" and (run_index % 8 == 3 or cfg_twin(cs)):
        tw = reshaped_twin(cs.s("game:twin"), subs[0])
        if tw is not None:
            s3 = make_subject(M, res, kind, cs.s("game:twin"), given=tw)
            if s3 is None:
                return res
            subs.append(s3)
            res.probe("reshaped_twin_same_bytes")
    res.probe({"bcs": "bcs_game", "reps2": "reps2_game", "tensor": "tensor_game"}[kind])
    shape = subs[0].shape
    if len(shape) == 4 and shape[0] != shape[1]:
        res.probe("unequal_alphabets")

    ops = draw_ops(cs.s("ops"), shape, tier)
    if cfg.draw(4) == 3:
        # an object of the same shape that is used and dropped before the history starts
        import gc

        tmp = make_subject(M, RunResult(), kind, cs.s("game:e"), like=subs[0].meta)
        if tmp is not None:
            first = ops[0]
            with with_entropy(first.get("entropy", 0) + 5):
                call_value(apply(tmp.game, first), res, first["op"] + "(ephemeral object)")
            del tmp
            gc.collect()
            res.probe("ephemeral_object_before_history")
    ws = cs.s("ops:which")
    methods_seen = []
    for k, op in enumerate(ops):
        si = ws.draw(len(subs)) if len(subs) > 1 else 0
        sub = subs[si]
        sub.used = True
        meta = dict(_pub(sub.meta), object_index=si, objects=len(subs))
        key = opkey(op)
        ent = op.get("entropy", 0)
        if ws.draw(6) == 0:
            # the caller continues with a copy of the object (deep copy / pickle round trip / shallow copy)
            how = ws.draw(3)
            try:
                sub.game = clone(sub.game, how)
            except Exception as e:
                res.violate("C07.op.raises", op=["deepcopy", "pickle", "copy"][how], exc=type(e).__name__, msg=str(e)[:200], position=k, **meta)
                break
            res.probe("object_cloned")
        with with_entropy(ent):
            maybe_interrupted_call(cs, res, apply(sub.game, op))
        with with_entropy(ent):
            out = call_value(apply(sub.game, op), res, op["op"])
        res.log.add("op", k, si, key, out[1] if out[0] == "ok" else out[:2])
        methods_seen.append(op["op"])
        hist = [o["op"] for o in ops[:k + 1]]
        # (i) no object of the history has changed
        res.checks_sim += 1
        changed = None
        for sj, other in enumerate(subs):
            changed = state_changed(other.game, other.caller, other.shadow_prob, other.shadow_pred, other.shadow_caller)
            if changed:
                res.violate("C07.hist.state", why=changed + ("" if sj == si else " (of the OTHER game object)"), after=op["op"], position=k, history=hist, **meta)
                break
        if changed:
            break
        if out[0] != "ok":
            continue
        v = out[1]
        # (ii) same as on a pristine object in a pristine library
        if k == 0:
            sub.pristine[key] = v
        else:
            if key not in sub.pristine:
                with pristine_library_state():
                    g2, _ = sub.build()
                    with with_entropy(ent):
                        o2 = call_value(apply(g2, op), res, op["op"] + "(pristine)")
                sub.pristine[key] = o2[1] if o2[0] == "ok" else None
                res.log.add("pristine", si, key, sub.pristine[key])
            if sub.pristine[key] is not None:
                res.checks_sim += 1
                if abs(sub.pristine[key] - v) > SAME:
                    res.violate("C07.hist.order", op=op["op"], position=k, history=hist, after_history=v, pristine=sub.pristine[key], **meta)
        # (iii) / (iv) reference models
        if op["op"] == "classical":
            res.checks_workload += 1
            if abs(v - sub.cl_model) > 1e-9:
                res.violate("C07.val.classical", got=v, expected=sub.cl_model, position=k, **meta)
        if op["op"] == "nonsignaling":
            if sub.ns_model is None:
                sub.ns_model = models.nonsignaling_value_lp(sub.exp_prob, sub.exp_pred)
            if sub.ns_model is not None:
                res.checks_workload += 1
                if abs(v - sub.ns_model) > TAU:
                    res.violate("C07.val.ns", got=v, expected=sub.ns_model, position=k, **meta)
        sub.values.append((op["op"], v, k, ent))
        if sub.pristine.get(key) is not None and k > 0:
            sub.values.append((op["op"], sub.pristine[key], -1, ent))

    # (v) ordering chain over everything seen for each object
    all_vals, lbs = {}, set()
    for si, sub in enumerate(subs):
        if not sub.used:
            continue
        vals = {}
        for name, v, k, ent in sub.values:
            vals.setdefault(name, []).append(v)
            all_vals.setdefault(name, []).append(v)
            if name == "lower_bound":
                lbs.add((si, ent))
        vals.setdefault("classical", []).append(sub.cl_model)
        check_chain(res, vals, dict(_pub(sub.meta), object_index=si, objects=len(subs)))
    if lbs:
        res.probe("lower_bound_obtained")
    if len(lbs) >= 2:
        res.probe("two_lower_bounds_different_entropy")
    if any(n.startswith("npa") for n in all_vals):
        res.probe("npa_obtained")
    if "npa2" in all_vals:
        res.probe("npa2_obtained")
    distinct = set(methods_seen)
    if len(distinct) >= 3:
        res.probe("three_distinct_methods")
    repeated = len(methods_seen) > len(distinct)
    if repeated:
        res.probe("method_repeated")
    inside = any(1e-6 < v < 1 - 1e-6 for lst in all_vals.values() for v in lst)
    if inside:
        res.probe("value_strictly_inside")
    res.nontrivial = len(distinct) >= 2 and repeated and inside
    res.case_key = "%016x" % mix([adigest(x.exp_prob) + adigest(x.exp_pred) for x in subs], json.dumps(ops, sort_keys=True), tuple(ws.taken))
    res.sample = {"games": [_pub(x.meta) for x in subs], "ops": ops, "object_of_op": list(ws.taken), "values": [[(n, round(v, 6), k) for (n, v, k, e) in x.values][:12] for x in subs], "classical_models": [x.cl_model for x in subs]}
    return res


def state_changed(game, caller, shadow_prob, shadow_pred, shadow_caller):
    try:
        if not _same(game.prob_mat, shadow_prob):
            return "prob_mat changed"
        if not _same(game.pred_mat, shadow_pred):
            return "pred_mat changed"
    except AttributeError as e:
        return "attribute missing: %s" % e
    for c, s in zip(caller, shadow_caller):
        if not _same(c, s):
            return "caller's array changed"
    return None


def _same(a, b):
    a = np.asarray(a)
    return a.shape == b.shape and a.dtype == b.dtype and a.tobytes() == b.tobytes()


CHAIN = [
    ("classical", "npa1", "cl_le_npa"), ("classical", "npa1ab", "cl_le_npa"), ("classical", "npa2", "cl_le_npa"),
    ("lower_bound", "npa1", "lb_le_npa"), ("lower_bound", "npa1ab", "lb_le_npa"), ("lower_bound", "npa2", "lb_le_npa"),
    ("npa2", "npa1ab", "npa2_le_npa1ab"), ("npa1ab", "npa1", "npa1ab_le_npa1"), ("npa2", "npa1", "npa1ab_le_npa1"),
    ("npa1", "nonsignaling", "npa_le_ns"), ("npa1ab", "nonsignaling", "npa_le_ns"), ("npa2", "nonsignaling", "npa_le_ns"),
    ("classical", "nonsignaling", "npa_le_ns"), ("lower_bound", "nonsignaling", "npa_le_ns"),
]


def check_chain(res, vals, meta, prefix="C07"):
    for lo, hi, name in CHAIN:
        if lo in vals and hi in vals:
            res.checks_sim += 1 if lo == "lower_bound" else 0
            res.checks_workload += 0 if lo == "lower_bound" else 1
            a, b = max(vals[lo]), min(vals[hi])
            res.margin(name, (a - b) / TAU)
            if a > b + TAU:
                res.violate(f"{prefix}.ord.{name}", lower_name=lo, lower=a, upper_name=hi, upper=b, **meta)
    for name in ("nonsignaling", "npa1", "npa1ab", "npa2", "lower_bound", "classical"):
        if name in vals:
            res.checks_workload += 1
            if max(vals[name]) > 1 + TAU:
                res.violate(f"{prefix}.ord.ns_le_1", name=name, value=max(vals[name]), **meta)
