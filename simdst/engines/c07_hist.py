"""C07 engine B: one NonlocalGame object, value methods in any order.

After every operation: the object's tensors (and the caller's arrays) are
byte-identical to shadow copies; the value equals the value of the same
operation on a pristine object (lower bounds under the same entropy); the
classical value equals the enumeration model, the non-signaling value the LP
model; every pair of values seen so far obeys the ordering chain."""

from __future__ import annotations

import itertools
import json

import numpy as np

from .. import models
from ..core import RunResult, adigest, mix
from .hist_common import SAME, TAU, call_value, quiet, with_entropy

NAME = "B"
PROPERTY = "C07"
RUNS = {"quick": 160, "thorough": 4000}
RUN_WALL_CAP = 240.0
REQUIRED_PROBES = {"quick": ["three_distinct_methods", "method_repeated", "lower_bound_obtained", "two_lower_bounds_different_entropy", "npa_obtained", "reps2_game", "bcs_game", "unequal_alphabets", "value_strictly_inside"], "thorough": ["three_distinct_methods", "method_repeated", "lower_bound_obtained", "two_lower_bounds_different_entropy", "npa_obtained", "npa2_obtained", "reps2_game", "bcs_game", "unequal_alphabets", "value_strictly_inside"]}
COMPONENTS = {"real": ["toqito.nonlocal_games.NonlocalGame (constructor, from_bcs_game, classical_value, nonsignaling_value, commuting_measurement_value_upper_bound, quantum_value_lower_bound)", "toqito.helper.npa_constraints / update_odometer", "toqito.matrix_ops.tensor", "toqito.rand.random_povm", "cvxpy + SCS/Clarabel"], "stub": ["OS entropy for the see-saw start (numpy.random.bit_generator.randbits -> choice source)"]}
RULE = ("one run = one game object (1..3 answers x 1..3 questions per player, unequal allowed; reps 2 for <=2x2x2x2; or from_bcs_game with 1..3 constraints over 2..3 variables) and 3..8 value-method calls "
        "in seeded order with repetition (classical, non-signaling, NPA level 1 / '1+ab' / 2, see-saw lower bound under seeded entropy); non-trivial = >=2 distinct methods, at least one repeated, "
        "some value strictly between 0 and 1; distinct = distinct digest of (game, operation sequence, entropy values)")
SHRINK_ORDER = ["config", "game", "ops"]


def _mod():
    import toqito.nonlocal_games.nonlocal_game as M

    return M


def preload():
    _mod()
    import cvxpy  # noqa: F401
    import scipy.optimize  # noqa: F401


# ----------------------------------------------------------------------------
# workload
# ----------------------------------------------------------------------------

def draw_tensor_game(st, max_out=3, max_in=3):
    # bias towards games that are not trivially won: mostly >= 2 answers and >= 2 questions
    outs = [(2, 5), (3, 3), (1, 1)] if max_out >= 3 else [(2, 5), (1, 1)]
    ins = [(2, 4), (3, 3), (1, 2)] if max_in >= 3 else [(2, 4), (1, 2)]
    a_out, b_out = st.weighted(outs), st.weighted(outs)
    a_in, b_in = st.weighted(ins), st.weighted(ins)
    rng = st.nprng()
    shape = (a_out, b_out, a_in, b_in)
    pk = st.weighted([("binary", 4), ("fractional", 3), ("sparse_binary", 2), ("functional", 3)])
    if pk == "binary":
        pred = (rng.random(shape) < 0.5).astype(float)
    elif pk == "sparse_binary":
        pred = (rng.random(shape) < 0.25).astype(float)
    elif pk == "fractional":
        pred = rng.random(shape)
    else:
        # win iff (a + b) mod m == f(x, y): generalised XOR-like games, usually with a quantum gap
        m = max(a_out, b_out)
        f = rng.integers(0, m, size=(a_in, b_in))
        pred = np.zeros(shape)
        for a, b, x, y in itertools.product(range(a_out), range(b_out), range(a_in), range(b_in)):
            pred[a, b, x, y] = float((a + b) % m == f[x, y])
    qk = st.weighted([("uniform", 3), ("dirichlet", 3), ("with_zeros", 2)])
    if qk == "uniform":
        prob = np.full((a_in, b_in), 1.0 / (a_in * b_in))
    else:
        prob = rng.random((a_in, b_in)) ** 2 + 1e-3
        if qk == "with_zeros":
            prob = prob * (rng.random((a_in, b_in)) < 0.6)
            if prob.sum() == 0:
                prob[0, 0] = 1.0
        prob = prob / prob.sum()
    return prob, pred, {"kind": "tensor", "shape": list(shape), "pred_kind": pk, "prob_kind": qk}


def draw_bcs(st):
    nvars = st.int_range(2, 3)
    ncons = st.int_range(1, 3)
    rng = st.nprng()
    cons = []
    for _ in range(ncons):
        while True:
            c = (rng.random((2,) * nvars) < 0.5).astype(float)
            if 0 < c.sum() < c.size:  # non-constant: depends on at least one variable
                break
        cons.append(c)
    return cons, {"kind": "bcs", "variables": nvars, "constraints": ncons}


def bcs_model(cons):
    m = len(cons)
    n = cons[0].ndim
    dep = np.zeros((m, n))
    for j, c in enumerate(cons):
        for i in range(n):
            moved = np.moveaxis(c, i, 0)
            dep[j, i] = float(np.any(moved[0] != moved[1]))
    prob = np.zeros((m, n))
    for j in range(m):
        prob[j] = (1.0 / m) * dep[j] / dep[j].sum()
    pred = np.zeros((2**n, 2, m, n))
    for x in range(m):
        for a in range(2**n):
            bits = tuple((a >> (n - 1 - k)) & 1 for k in range(n))
            if cons[x][bits] == 1:
                for y in range(n):
                    pred[a, bits[y], x, y] = 1.0
    return prob, pred


OPS = ["classical", "nonsignaling", "npa1", "npa1ab", "npa2", "lower_bound"]


def npa_cost(shape, level):
    a_out, b_out, a_in, b_in = shape
    na, nb = (a_out - 1) * a_in, (b_out - 1) * b_in
    if level == "npa1":
        return 1 + na + nb
    if level == "npa1ab":
        return 1 + na + nb + na * nb
    return 1 + na + nb + na * nb + na * na + nb * nb


def draw_ops(st, shape, tier):
    n = st.int_range(3, 8 if tier == "thorough" else 6)
    ops = []
    limit2 = 60 if tier == "thorough" else 26
    for _ in range(n):
        name = st.weighted([("classical", 3), ("lower_bound", 4), ("npa1", 3), ("nonsignaling", 2), ("npa1ab", 2), ("npa2", 2)])
        if name in ("npa1", "npa1ab", "npa2") and npa_cost(shape, name) > (limit2 if name == "npa2" else 70):
            name = "npa1" if npa_cost(shape, "npa1") <= 70 else "classical"
        if name == "nonsignaling" and shape[0] * shape[1] * shape[2] * shape[3] > 150:
            name = "classical"
        op = {"op": name}
        if name == "lower_bound":
            if shape[0] * shape[2] + shape[1] * shape[3] > 20:
                op = {"op": "classical"}
            else:
                op["entropy"] = st.draw(1 << 20) + 1
                op["iters"] = 1 + (st.draw(4) == 3)
        ops.append(op)
    return ops


def apply(game, op):
    name = op["op"]
    if name == "classical":
        return game.classical_value
    if name == "nonsignaling":
        return game.nonsignaling_value
    if name == "npa1":
        return lambda: game.commuting_measurement_value_upper_bound(1)
    if name == "npa1ab":
        return lambda: game.commuting_measurement_value_upper_bound("1+ab")
    if name == "npa2":
        return lambda: game.commuting_measurement_value_upper_bound(2)
    if name == "lower_bound":
        return lambda: game.quantum_value_lower_bound(dim=2, iters=op["iters"])
    raise KeyError(name)


def opkey(op):
    return json.dumps(op, sort_keys=True)


# ----------------------------------------------------------------------------
# the run
# ----------------------------------------------------------------------------

def run(cs, tier, run_index):
    quiet()
    res = RunResult()
    M = _mod()
    cfg = cs.s("config")
    kind = cfg.weighted([("tensor", 6), ("bcs", 2), ("reps2", 2)])
    if run_index % 8 == 5:
        kind = "bcs"
    elif run_index % 8 == 6:
        kind = "reps2"
    gs = cs.s("game")

    def build():
        """Fresh object from fresh copies of the generated data."""
        if kind == "bcs":
            cons = [c.copy() for c in base_cons]
            return M.NonlocalGame.from_bcs_game(cons, 1), cons
        p, v = base_prob.copy(), base_pred.copy()
        return M.NonlocalGame(p, v, reps), (p, v)

    reps = 1
    if kind == "bcs":
        base_cons, meta = draw_bcs(gs)
        exp_prob, exp_pred = bcs_model(base_cons)
        res.probe("bcs_game")
    else:
        if kind == "reps2":
            base_prob, base_pred, meta = draw_tensor_game(gs, 2, 2)
            reps = 2
            meta["reps"] = 2
            res.probe("reps2_game")
        else:
            base_prob, base_pred, meta = draw_tensor_game(gs)
        exp_prob, exp_pred = models.product_game(base_prob, base_pred, reps)
    try:
        game, caller = build()
    except Exception as e:
        res.violate("C07.ctor.reps" if kind != "bcs" else "C07.ctor.bcs", why="constructor raised on a valid game", exc=type(e).__name__, msg=str(e)[:200], **meta)
        return res
    shape = tuple(int(s) for s in np.shape(game.pred_mat))
    meta["game_shape"] = list(shape)
    if len(shape) == 4 and shape[0] != shape[1]:
        res.probe("unequal_alphabets")

    # constructor clauses (workload invariants)
    res.checks_workload += 1
    inv = "C07.ctor.bcs" if kind == "bcs" else "C07.ctor.reps"
    if np.shape(game.prob_mat) != exp_prob.shape or np.shape(game.pred_mat) != exp_pred.shape or not np.allclose(game.prob_mat, exp_prob, atol=1e-12) or not np.allclose(game.pred_mat, exp_pred, atol=1e-12):
        res.violate(inv, why="stored tensors differ from the %s" % ("BCS definition" if kind == "bcs" else "r-fold product formula"), **meta)
        return res
    shadow_prob, shadow_pred = np.array(game.prob_mat, copy=True), np.array(game.pred_mat, copy=True)
    shadow_caller = [np.array(c, copy=True) for c in caller]

    ops = draw_ops(cs.s("ops"), shape, tier)
    pristine = {}
    values = []  # (op name, value, where)
    cl_model = models.classical_value_bf(exp_prob, exp_pred)
    ns_model = None
    methods_seen = []
    for k, op in enumerate(ops):
        key = opkey(op)
        ent = op.get("entropy", 0)
        with with_entropy(ent):
            out = call_value(apply(game, op), res, op["op"])
        res.log.add("op", k, key, out[1] if out[0] == "ok" else out[:2])
        methods_seen.append(op["op"])
        # (i) object unchanged
        res.checks_sim += 1
        changed = state_changed(game, caller, shadow_prob, shadow_pred, shadow_caller)
        if changed:
            res.violate("C07.hist.state", why=changed, after=op["op"], position=k, history=[o["op"] for o in ops[:k + 1]], **meta)
            break
        if out[0] != "ok":
            continue
        v = out[1]
        # (ii) same as on a pristine object
        if k == 0:
            pristine[key] = v
        else:
            if key not in pristine:
                g2, _ = build()
                with with_entropy(ent):
                    o2 = call_value(apply(g2, op), res, op["op"] + "(pristine)")
                pristine[key] = o2[1] if o2[0] == "ok" else None
                res.log.add("pristine", key, pristine[key])
            if pristine[key] is not None:
                res.checks_sim += 1
                if abs(pristine[key] - v) > SAME:
                    res.violate("C07.hist.order", op=op["op"], position=k, history=[o["op"] for o in ops[:k + 1]], after_history=v, pristine=pristine[key], **meta)
        # (iii) / (iv) reference models
        if op["op"] == "classical":
            res.checks_workload += 1
            if abs(v - cl_model) > 1e-9:
                res.violate("C07.val.classical", got=v, expected=cl_model, position=k, **meta)
        if op["op"] == "nonsignaling":
            if ns_model is None:
                ns_model = models.nonsignaling_value_lp(exp_prob, exp_pred)
            if ns_model is not None:
                res.checks_workload += 1
                if abs(v - ns_model) > TAU:
                    res.violate("C07.val.ns", got=v, expected=ns_model, position=k, **meta)
        values.append((op["op"], v, k, ent))
        if pristine.get(key) is not None and k > 0:
            values.append((op["op"], pristine[key], -1, ent))

    # (v) ordering chain over everything seen in this run
    vals = {}
    for name, v, k, ent in values:
        vals.setdefault(name, []).append(v)
    vals.setdefault("classical", []).append(cl_model)
    check_chain(res, vals, meta)

    lbs = set(e for (n, v, k, e) in values if n == "lower_bound")
    if lbs:
        res.probe("lower_bound_obtained")
    if len(lbs) >= 2:
        res.probe("two_lower_bounds_different_entropy")
    if any(n.startswith("npa") for n in vals):
        res.probe("npa_obtained")
    if "npa2" in vals:
        res.probe("npa2_obtained")
    distinct = set(methods_seen)
    if len(distinct) >= 3:
        res.probe("three_distinct_methods")
    repeated = len(methods_seen) > len(distinct)
    if repeated:
        res.probe("method_repeated")
    inside = any(1e-6 < v < 1 - 1e-6 for lst in vals.values() for v in lst)
    if inside:
        res.probe("value_strictly_inside")
    res.nontrivial = len(distinct) >= 2 and repeated and inside
    res.case_key = "%016x" % mix(adigest(exp_prob), adigest(exp_pred), json.dumps(ops, sort_keys=True))
    res.sample = {"game": meta, "ops": ops, "values": [(n, round(v, 6), k) for (n, v, k, e) in values][:16], "classical_model": cl_model}
    return res


def state_changed(game, caller, shadow_prob, shadow_pred, shadow_caller):
    try:
        if not _same(game.prob_mat, shadow_prob):
            return "prob_mat changed"
        if not _same(game.pred_mat, shadow_pred):
            return "pred_mat changed"
    except AttributeError as e:
        return "attribute missing: %s" % e
    for c, s in zip(caller, shadow_caller):
        if not _same(c, s):
            return "caller's array changed"
    return None


def _same(a, b):
    a = np.asarray(a)
    return a.shape == b.shape and a.dtype == b.dtype and a.tobytes() == b.tobytes()


CHAIN = [
    ("classical", "npa1", "cl_le_npa"), ("classical", "npa1ab", "cl_le_npa"), ("classical", "npa2", "cl_le_npa"),
    ("lower_bound", "npa1", "lb_le_npa"), ("lower_bound", "npa1ab", "lb_le_npa"), ("lower_bound", "npa2", "lb_le_npa"),
    ("npa2", "npa1ab", "npa2_le_npa1ab"), ("npa1ab", "npa1", "npa1ab_le_npa1"), ("npa2", "npa1", "npa1ab_le_npa1"),
    ("npa1", "nonsignaling", "npa_le_ns"), ("npa1ab", "nonsignaling", "npa_le_ns"), ("npa2", "nonsignaling", "npa_le_ns"),
    ("classical", "nonsignaling", "npa_le_ns"), ("lower_bound", "nonsignaling", "npa_le_ns"),
]


def check_chain(res, vals, meta, prefix="C07"):
    for lo, hi, name in CHAIN:
        if lo in vals and hi in vals:
            res.checks_sim += 1 if lo == "lower_bound" else 0
            res.checks_workload += 0 if lo == "lower_bound" else 1
            a, b = max(vals[lo]), min(vals[hi])
            if a > b + TAU:
                res.violate(f"{prefix}.ord.{name}", lower_name=lo, lower=a, upper_name=hi, upper=b, **meta)
    for name in ("nonsignaling", "npa1", "npa1ab", "npa2", "lower_bound", "classical"):
        if name in vals:
            res.checks_workload += 1
            if max(vals[name]) > 1 + TAU:
                res.violate(f"{prefix}.ord.ns_le_1", name=name, value=max(vals[name]), **meta)
