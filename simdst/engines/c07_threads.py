"""C07 engine T7: two or three callers, each with its own NonlocalGame objects, interleaved at line granularity."""

from __future__ import annotations

import json

from ..core import RunResult, mix
from .c07_hist import _mod, apply, draw_tensor_game, npa_cost
from .hist_common import quiet
from .threads_common import run_clients

NAME = "T7"
PROPERTY = "C07"
RUNS = {"quick": 64, "thorough": 4000}
RUN_WALL_CAP = 120.0
REQUIRED_PROBES = {"quick": ["same_shape_games_in_two_clients", "interleaved_calls_compared"], "thorough": ["same_shape_games_in_two_clients", "interleaved_calls_compared"]}
COMPONENTS = {"real": ["toqito.nonlocal_games.NonlocalGame value methods (classical, NPA level 1, non-signaling) called from 2..3 real threads (own objects each)", "cvxpy + SCS/Clarabel (never pre-empted)"], "stub": ["thread scheduling: baton passing, pre-emption at every Python line of toqito code, decided by the choice source"]}
RULE = ("one run = 2..3 client threads, each owning 1..2 NonlocalGame objects (1..3 answers x 1..3 questions per player; the clients' games mostly of the same shape and different contents) and calling classical / NPA-1 / non-signaling value, "
        "interleaved by the seeded scheduler; the see-saw is left out (its entropy comes through a process-wide seam); reference = the same call made alone on a pristine library; non-trivial = >= 1 switch inside a library call and >= 2 values compared")
SHRINK_ORDER = ["config", "game", "sched"]


def preload():
    _mod()
    import cvxpy  # noqa: F401


def run(cs, tier, run_index):
    quiet()
    res = RunResult()
    M = _mod()
    cfg = cs.s("config")
    n_clients = 2 + (cfg.draw(3) == 0)
    clients, desc, first = [], [], None
    for i in range(n_clients):
        gs = cs.s(f"game:{i}")
        ops = []
        for j in range(gs.int_range(1, 2)):
            like = first if (first is not None and gs.draw(3) != 0) else None
            prob, pred, meta = draw_tensor_game(gs, like=like)
            if like is not None and i > 0:
                res.probe("same_shape_games_in_two_clients")
            if first is None:
                first = meta
            shape = tuple(meta["shape"])
            nm = gs.weighted([("classical", 5), ("npa1", 2), ("nonsignaling", 2)])
            if nm == "npa1" and npa_cost(shape, "npa1") > 30:
                nm = "classical"
            if nm == "nonsignaling" and shape[0] * shape[1] * shape[2] * shape[3] > 100:
                nm = "classical"
            pub = dict({k: v for k, v in meta.items() if not k.startswith("_")}, method=nm)

            def make_fn(prob=prob, pred=pred, nm=nm):
                return apply(M.NonlocalGame(prob.copy(), pred.copy()), {"op": nm})

            ops.append((nm, make_fn, pub))
            desc.append([i, pub])
        clients.append(ops)
    sch, results = run_clients(cs, res, "C07", clients, RUN_WALL_CAP - 10)
    res.case_key = "%016x" % mix(json.dumps(desc, sort_keys=True, default=str), res.interleaving)
    res.sample = {"clients": desc, "switches_inside_library": sch.switches_inside, "values": [[r[1] if r and r[0] == "ok" else None for r in row] for row in results]}
    return res
