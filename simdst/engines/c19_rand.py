"""C19 engine R: random generators under a deterministic thread scheduler,
an OS-entropy seam and a global-RNG adversary.

Clients (real threads, one running at a time) call toqito.rand generators with
seeds from a small pool, unseeded, and build measurements from what they
generated.  An adversary thread rewrites the process-global RNGs at arbitrary
pre-emption points.  Reference model: every (generator, params, seed) triple is
evaluated once in a quiescent single thread before the clients start; every
later occurrence must be bitwise equal.
"""

from __future__ import annotations

import copy
import json
import os
import random as pyrandom

import numpy as np

from .. import models
from ..core import RunResult, adigest, arr_to_json, mix
from ..driver import pristine_library_state
from ..sched import Scheduler
from ..seams import Entropy, entropy_seam, set_global_rngs

NAME = "R"
PROPERTY = "C19"
RUNS = {"quick": 6000, "thorough": 250000}
RUN_WALL_CAP = 60.0
REQUIRED_PROBES = {
    "quick": ["switch_inside_generator", "adversary_write_between_events", "seed_zero_used", "list_dim_used", "triple_evaluated_3x", "unseeded_call", "pgm_checked", "measure_checked", "numpy_integer_seed", "positional_seed", "numpy_scalar_arguments"],
    "thorough": ["switch_inside_generator", "adversary_write_between_events", "seed_zero_used", "list_dim_used", "triple_evaluated_3x", "unseeded_call", "pgm_checked", "measure_checked", "popt_sdp_checked"],
}
COMPONENTS = {
    "real": ["toqito.rand.* (all nine generators)", "toqito.measurements.pretty_good_measurement / pretty_bad_measurement", "toqito.measurement_ops.measure", "numpy", "real threading.Thread clients"],
    "stub": ["OS entropy (numpy.random.bit_generator.randbits -> choice source)", "thread scheduler (baton passing; who runs is decided by the choice source)", "global-RNG adversary (simulated co-tenant code)"],
}
RULE = (
    "one run = 2-4 client threads + 1 adversary thread under the seeded scheduler; ops drawn per client from "
    "{seeded generator call (Python or numpy integer seeds, seeds up to 2**63), the same call with one argument changed minimally, unseeded call, PGM/PBM on a generated ensemble in several input forms, measure on a generated state with square / isometric / incomplete Kraus sets}; list-valued arguments are long-lived objects of the client; "
    "non-trivial = at least one switch landed inside a library call AND the adversary wrote the global RNG between two events of one client "
    "AND some seeded triple was evaluated >=3 times; distinct = distinct digest of (operations, switch sequence)"
)
SHRINK_ORDER = ["config", "client", "adversary", "sched", "entropy"]

SEED_POOL = [0, 1, 2, 42, 2**32 - 1, 123456789, 7, 2**32, 2**32 + 1, 2**63 + 5]
SEED_FORMS = ["int", "int", "int", "np.int64", "np.uint64", "pos", "np_args"]
# "pos": every argument, the seed last, passed positionally in the order of the pinned public signature; it
# is the same call as the keyword form and is judged against the keyword form's reference value.
# "np_args": every integer argument as numpy.int64 and every flag as numpy.bool_ (what `for d in np.arange(2, 5)`
# or `np.all(np.isreal(rho))` hand over); the same call, judged against the plain-Python call's reference value.
POS_ORDER = {
    "random_unitary": ["dim", "is_real"],
    "random_density_matrix": ["dim", "is_real", "k_param", "distance_metric"],
    "random_psd_operator": ["dim", "is_real"],
    "random_orthonormal_basis": ["dim", "is_real"],
    "random_state_vector": ["dim", "is_real", "k_param"],
    "random_povm": ["dim", "num_inputs", "num_outputs"],
    "random_circulant_gram_matrix": ["dim"],
    "random_states": ["n", "d"],
    "random_ginibre": ["dim_n", "dim_m"],
}
TOL = 1e-9


def _repo():
    return os.environ.get("VERIF_REPO", "/repo")


# ----------------------------------------------------------------------------
# workload generation
# ----------------------------------------------------------------------------

GENS = ["random_unitary", "random_density_matrix", "random_psd_operator", "random_orthonormal_basis", "random_state_vector", "random_povm", "random_circulant_gram_matrix", "random_states", "random_ginibre"]


def draw_params(st, name):
    if name == "random_unitary":
        d = st.int_range(1, 6)
        form = st.draw(3)  # 0 int, 1 list, 2 list
        return {"dim": d if form == 0 else [d, d], "is_real": bool(st.draw(2))}
    if name == "random_density_matrix":
        d = st.int_range(1, 6)
        kmode = st.draw(3)
        k = None if kmode == 0 else st.int_range(1, d)
        return {"dim": d, "is_real": bool(st.draw(2)), "k_param": k, "distance_metric": st.weighted([("haar", 3), ("bures", 2)])}
    if name == "random_psd_operator":
        return {"dim": st.int_range(1, 6), "is_real": bool(st.draw(2))}
    if name == "random_orthonormal_basis":
        return {"dim": st.int_range(1, 6), "is_real": bool(st.draw(2))}
    if name == "random_state_vector":
        form = st.draw(2)
        if form == 0:
            d = st.int_range(1, 6)
            dim = d
            mind = d
        else:
            d0, d1 = st.int_range(1, 6), st.int_range(1, 6)
            if d0 * d1 > 30:
                d1 = max(1, 30 // d0)
            dim = [d0, d1]
            mind = min(d0, d1)
        k = st.int_range(0, mind)
        return {"dim": dim, "is_real": bool(st.draw(2)), "k_param": k}
    if name == "random_povm":
        return {"dim": st.int_range(1, 4), "num_inputs": st.int_range(1, 3), "num_outputs": st.int_range(1, 6)}
    if name == "random_circulant_gram_matrix":
        return {"dim": st.int_range(1, 6)}
    if name == "random_states":
        return {"n": st.int_range(1, 5), "d": st.int_range(1, 6)}
    if name == "random_ginibre":
        return {"dim_n": st.int_range(1, 5), "dim_m": st.int_range(1, 5)}
    raise KeyError(name)


def variant_of(st, op):
    """A neighbour of an earlier generator call: the same call with ONE argument changed minimally (same
    seed).  Anything the library keeps between calls under a key that ignores that argument collides."""
    p = dict(op["params"])
    name = op["name"]
    choices = []
    if isinstance(p.get("dim"), list) and len(p["dim"]) == 2:
        choices.append("swap_dims")
        choices.append("refactor_dims")
    if "is_real" in p:
        choices.append("flip_real")
    if name == "random_state_vector" or (name == "random_density_matrix" and p.get("k_param") is not None):
        choices.append("k_plus_minus")
    if name == "random_povm":
        choices.append("povm_shape")
    if name in ("random_states", "random_ginibre"):
        choices.append("transpose_counts")
    if isinstance(p.get("dim"), int) and name in ("random_unitary", "random_state_vector"):
        choices.append("int_to_list")
    if not choices:
        return None
    c = choices[st.draw(len(choices))]
    if c == "swap_dims":
        p["dim"] = p["dim"][::-1]
    elif c == "refactor_dims":
        tot = p["dim"][0] * p["dim"][1]
        facs = [[a, tot // a] for a in range(1, 7) if tot % a == 0 and tot // a <= 6 and [a, tot // a] != p["dim"]]
        if not facs:
            return None
        p["dim"] = facs[st.draw(len(facs))]
        if name == "random_unitary":
            return None
    elif c == "flip_real":
        p["is_real"] = not p["is_real"]
    elif c == "k_plus_minus":
        if name == "random_state_vector":
            mind = min(p["dim"]) if isinstance(p["dim"], list) else p["dim"]
            p["k_param"] = max(0, min(mind, p["k_param"] + (1 if st.draw(2) else -1)))
        else:
            p["k_param"] = max(1, min(p["dim"], p["k_param"] + (1 if st.draw(2) else -1)))
    elif c == "povm_shape":
        p["num_inputs"], p["num_outputs"] = max(1, min(3, p["num_outputs"])), max(1, min(4, p["num_inputs"] + 1))
    elif c == "transpose_counts":
        if name == "random_states":
            p["n"], p["d"] = max(1, min(5, p["d"])), max(1, min(6, p["n"]))
        else:
            p["dim_n"], p["dim_m"] = p["dim_m"], p["dim_n"]
    elif c == "int_to_list":
        p["dim"] = [p["dim"], p["dim"]]
        if name == "random_state_vector":
            p["k_param"] = min(p["k_param"], p["dim"][0])
    if p == op["params"]:
        return None
    if name == "random_state_vector":
        mind = min(p["dim"]) if isinstance(p["dim"], list) else p["dim"]
        p["k_param"] = min(p["k_param"], mind)
    return {"op": "gen", "name": name, "params": p, "seed": op["seed"], "seed_form": op.get("seed_form", "int"), "variant": c}


# inputs that reach numerical corners random draws almost never reach (each found by a long seeded search):
# random_povm(2, 1, 1, seed=209979) draws a Gram block of condition number 1.6e6
HARD_CASES = [
    ("random_povm", {"dim": 2, "num_inputs": 1, "num_outputs": 1}, 209979),
]


def draw_client_ops(st, n_ops, hot):
    """hot: list of (name, params, seed) triples shared by all clients so that the
    same triple recurs within and across clients."""
    ops = []
    for _ in range(n_ops):
        kind = st.weighted([("gen", 10), ("hot", 8), ("unseeded", 4), ("pgm", 3), ("measure", 3), ("variant", 6), ("hard", 1)])
        if kind == "hard":
            name, params, seed = HARD_CASES[st.draw(len(HARD_CASES))]
            ops.append({"op": "gen", "name": name, "params": dict(params), "seed": seed, "seed_form": "int", "hard_case": True})
            continue
        if kind == "variant":
            earlier = [o for o in ops if o["op"] == "gen" and o["seed"] is not None]
            v = variant_of(st, earlier[st.draw(len(earlier))]) if earlier else None
            if v is None:
                kind = "gen"
            else:
                ops.append(v)
                continue
        if kind == "hot":
            name, params, seed = hot[st.draw(len(hot))]
            ops.append({"op": "gen", "name": name, "params": params, "seed": seed, "seed_form": "int"})
        elif kind == "gen":
            name = GENS[st.draw(len(GENS))]
            ops.append({"op": "gen", "name": name, "params": draw_params(st, name), "seed": SEED_POOL[st.draw(len(SEED_POOL))], "seed_form": SEED_FORMS[st.draw(len(SEED_FORMS))]})
        elif kind == "unseeded":
            name = GENS[st.draw(len(GENS))]
            ops.append({"op": "gen", "name": name, "params": draw_params(st, name), "seed": None})
        elif kind == "pgm":
            d = st.int_range(2, 4)
            pure = bool(st.draw(2))
            n = st.int_range(d if pure else 2, 6)
            w = [1 + st.draw(8) for _ in range(n)]
            tiny = None
            if st.draw(4) == 0:
                # spanning but ill-conditioned: one state (needed for spanning when n = d) carries a tiny prior
                tiny = [1e-4, 1e-5, 1e-6][st.draw(3)]
            ops.append({"op": "pgm", "d": d, "n": n, "pure": pure, "weights": w, "uniform_default": bool(st.draw(4) == 0), "seed": SEED_POOL[st.draw(len(SEED_POOL))], "bad": bool(st.draw(2)), "form": st.draw(3), "probs_array": bool(st.draw(3) == 0), "tiny_prior": tiny})
        else:
            d = st.int_range(1, 4)
            ops.append({"op": "measure", "d": d, "mkind": st.choice(["povm_sqrt", "projective", "single", "incomplete", "isometric", "basis_int"]), "outs": st.int_range(2, 4), "update": bool(st.draw(2)), "as_tuple": bool(st.draw(3) == 0), "seed": SEED_POOL[st.draw(len(SEED_POOL))], "state_form": st.weighted([("complex", 3), ("real", 2), ("int_basis", 1), ("real_pure", 1)])})
    return ops


def draw_adversary_ops(st, n):
    ops = []
    for _ in range(n):
        kind = st.weighted([("np_seed", 5), ("np_draw", 4), ("py_seed", 2), ("np_set_state", 2), ("unseeded_rng", 2), ("np_seed_pool", 3)])
        if kind == "np_seed":
            ops.append({"adv": "np_seed", "k": st.draw(1 << 32)})
        elif kind == "np_seed_pool":
            ops.append({"adv": "np_seed", "k": SEED_POOL[st.draw(len(SEED_POOL))] % 2**32})
        elif kind == "np_draw":
            ops.append({"adv": "np_draw", "n": 1 + st.draw(64)})
        elif kind == "py_seed":
            ops.append({"adv": "py_seed", "k": st.draw(1 << 32)})
        elif kind == "np_set_state":
            ops.append({"adv": "np_set_state"})
        else:
            ops.append({"adv": "unseeded_rng"})
    return ops


# ----------------------------------------------------------------------------
# calling the library
# ----------------------------------------------------------------------------

def _lib():
    import toqito.rand as R
    from toqito.measurement_ops import measure
    from toqito.measurements import pretty_bad_measurement, pretty_good_measurement

    return R, pretty_good_measurement, pretty_bad_measurement, measure


def preload():
    _lib()
    import cvxpy  # noqa: F401
    import scipy.linalg  # noqa: F401


def as_seed(seed, form):
    """The seed as the caller would pass it: a Python int or a numpy integer scalar of the same value."""
    if seed is None or form == "int":
        return seed
    if form == "np.int64" and seed < 2**63:
        return np.int64(seed)
    if form == "np.uint64" and seed < 2**64:
        return np.uint64(seed)
    return seed


def call_gen(R, name, params, seed, form="int", live=None):
    """`live`: per-client dict of long-lived argument objects.  A list-valued argument is passed as the same
    list object on every call of that client (a caller who keeps its dimension list around); if the library
    changed it in place, later calls would see other arguments than the reference evaluation."""
    fn = getattr(R, name)
    if live is not None:
        params = dict(params)
        for k, v in list(params.items()):
            if isinstance(v, list):
                key = (name, k, json.dumps(v))
                if key not in live:
                    live[key] = list(v)
                params[k] = live[key]
    else:
        params = copy.deepcopy(params)
    if form == "np_args":
        params = {k: _np_arg(v) for k, v in params.items()}
    try:
        if form == "pos" and seed is not None:
            return ("ok", fn(*[params[k] for k in POS_ORDER[name]], seed))
        return ("ok", fn(**params, seed=as_seed(seed, form)))
    except Exception as e:  # library exception: recorded, judged by the oracle
        return ("exc", type(e).__name__, str(e)[:200])


def _np_arg(v):
    if isinstance(v, bool):
        return np.bool_(v)
    if isinstance(v, int):
        return np.int64(v)
    if isinstance(v, list):
        return [_np_arg(e) for e in v]
    return v


def triple_key(name, params, seed, form="int"):
    return json.dumps([name, params, seed, "int" if form in ("pos", "np_args") else form], sort_keys=True)


def same(a, b):
    """Bitwise equality of two call outcomes."""
    if a[0] != b[0]:
        return False
    if a[0] == "exc":
        return a[1] == b[1]
    return _same_obj(a[1], b[1])


def _same_obj(x, y):
    if isinstance(x, (list, tuple)):
        return isinstance(y, (list, tuple)) and len(x) == len(y) and all(_same_obj(p, q) for p, q in zip(x, y))
    if isinstance(x, np.ndarray):
        return isinstance(y, np.ndarray) and x.shape == y.shape and x.dtype == y.dtype and np.array_equal(x, y)
    return type(x) is type(y) and x == y


def outcome_digest(o):
    return adigest(o[1]) if o[0] == "ok" else "exc:" + o[1]


# ----------------------------------------------------------------------------
# the run
# ----------------------------------------------------------------------------

def run(cs, tier, run_index):
    res = RunResult()
    log = res.log
    R, pgm_f, pbm_f, measure_f = _lib()
    cfg = cs.s("config")
    n_clients = cfg.int_range(2, 4)
    switch_permille = cfg.choice([300, 50, 900, 0])
    adv_ops_n = cfg.choice([6, 0, 2, 16])
    collide = cfg.choice([0, 0, 200])
    ops_per_client = cfg.int_range(2, 7)
    n_hot = cfg.int_range(1, 3)
    # stratification by run index keeps every required probe alive in small batches
    if run_index % 8 == 0:
        switch_permille, adv_ops_n = 300, max(adv_ops_n, 6)
    hot = []
    hs = cs.s("config:hot")
    for _ in range(n_hot):
        name = GENS[hs.draw(len(GENS))]
        hot.append((name, draw_params(hs, name), SEED_POOL[hs.draw(len(SEED_POOL))]))
    client_ops = [draw_client_ops(cs.s(f"client:{i}"), ops_per_client, hot) for i in range(n_clients)]
    adv_ops = draw_adversary_ops(cs.s("adversary"), adv_ops_n)
    # own stream: some ensembles are an orthonormal basis with an ALMOST uniform prior (average state close to, not
    # equal to, the maximally mixed state - where a shortcut for "symmetric" ensembles decides by a tolerance)
    for i, ops_i in enumerate(client_ops):
        ns = cs.s(f"pgm:near:{i}")
        for op in ops_i:
            if op["op"] == "pgm" and op["d"] >= 2 and ns.draw(3) == 0:
                op["near_basis"] = [1e-3, 3e-4, 1e-4, 1e-5][ns.draw(4)]
                op["pure"] = True
                res.probe("pgm_near_uniform_basis")
    res.info["config"] = {"clients": n_clients, "switch_permille": switch_permille, "adversary_ops": adv_ops_n, "collide_permille": collide}

    ent = Entropy(cs.s("entropy"), log=None, collide_permille=collide, res=res)
    with entropy_seam(ent):
        set_global_rngs(cs.s("config:global"))
        saved_state = np.random.get_state()

        # ---- quiescent reference model --------------------------------------
        triples = {}
        for ops in client_ops:
            for op in ops:
                for name, params, seed, form in expand_gen_calls(op):
                    if seed is not None:
                        triples.setdefault(triple_key(name, params, seed, form), (name, params, seed, "int" if form in ("pos", "np_args") else form))
        ref = {}
        for key, (name, params, seed, form) in triples.items():
            # every reference in a pristine library: nothing an earlier reference call left behind is visible
            with pristine_library_state():
                ref[key] = copy.deepcopy(call_gen(R, name, params, seed, form))
            log.add("ref", key, outcome_digest(ref[key]))

        # ---- clients ---------------------------------------------------------
        records = [[] for _ in range(n_clients)]  # per client: (opindex, op, outcome parts)
        global_writes = []  # global event sequence numbers of adversary writes
        seq = [0]

        # own streams: which returned objects the client goes on to edit in place
        scrib = [[cs.s(f"scribble:{i}").draw(5) == 0 for _ in client_ops[i]] for i in range(n_clients)]

        def make_client(i):
            live = {}

            def body(yield_fn):
                for k, op in enumerate(client_ops[i]):
                    seq[0] += 1
                    start = seq[0]
                    out = exec_op(R, pgm_f, pbm_f, measure_f, op, live=live, scribble_after=scrib[i][k])
                    if out.get("scribbled"):
                        res.probe("caller_edits_returned_object")
                    seq[0] += 1
                    records[i].append((k, op, out, start, seq[0]))
                    yield_fn()

            return body

        def adversary(yield_fn):
            for op in adv_ops:
                seq[0] += 1
                global_writes.append(seq[0])
                a = op["adv"]
                if a == "np_seed":
                    np.random.seed(op["k"])
                elif a == "np_draw":
                    np.random.random(op["n"])
                    np.random.randn(2)
                elif a == "py_seed":
                    pyrandom.seed(op["k"])
                elif a == "np_set_state":
                    np.random.set_state(saved_state)
                else:
                    np.random.default_rng().random(3)
                res.fault("adversary_" + a)
                yield_fn()

        step_cap = 4000
        sch = Scheduler(cs.s("sched"), switch_permille, [os.path.join(_repo(), "toqito") + os.sep], step_cap=step_cap, log=log)
        for i in range(n_clients):
            sch.add(f"c{i}", make_client(i))
        if adv_ops:
            sch.add("adv", adversary)
        sch.run(wall_timeout=RUN_WALL_CAP - 5)

        # ---- oracles (quiescent, untraced) -----------------------------------
        # the harness's own arithmetic must not inherit an error state a generator may have left behind
        err_now = np.geterr()
        if err_now != {"divide": "warn", "over": "warn", "under": "ignore", "invalid": "warn"}:
            res.probe("numpy_error_state_changed_by_library")
            np.seterr(divide="warn", over="warn", under="ignore", invalid="warn")
        counts = {}
        for i in range(n_clients):
            for k, op, out, s0, s1 in records[i]:
                log.add("op", f"c{i}", k, op["op"], op.get("name", ""), json.dumps(op.get("params", ""), sort_keys=True), op.get("seed"), [outcome_digest(c[3]) for c in out["calls"]])
                for name, params, seed, o, form in out["calls"]:
                    if seed is None:
                        res.probe("unseeded_call")
                        check_kind(res, name, params, seed, o)
                        continue
                    key = triple_key(name, params, seed, form)
                    counts[key] = counts.get(key, 0) + 1
                    if form == "pos":
                        res.probe("positional_seed")
                    elif form == "np_args":
                        res.probe("numpy_scalar_arguments")
                    elif form != "int":
                        res.probe("numpy_integer_seed")
                    if seed == 0:
                        res.probe("seed_zero_used")
                    res.checks_sim += 1
                    if not same(o, ref[key]):
                        res.violate("C19.repro", gen=name, params=params, seed=seed, seed_form=form, where=f"client c{i} op {k}", expected=outcome_digest(ref[key]), observed=outcome_digest(o), switches=sch.switches, adversary_ops=len(adv_ops))
                    check_kind(res, name, params, seed, o)
                if op["op"] == "pgm":
                    check_pgm(res, op, out, tier, cs)
                elif op["op"] == "measure":
                    check_measure(res, op, out)
        # once more after everything finished
        for key, (name, params, seed, form) in triples.items():
            again = call_gen(R, name, params, seed, form)
            res.checks_sim += 1
            if not same(again, ref[key]):
                res.violate("C19.repro", gen=name, params=params, seed=seed, seed_form=form, where="after all threads finished", expected=outcome_digest(ref[key]), observed=outcome_digest(again), switches=sch.switches, adversary_ops=len(adv_ops))
        # different seeds -> different objects
        by_np = {}
        for key, (name, params, seed, form) in triples.items():
            if form == "int":
                by_np.setdefault(json.dumps([name, params], sort_keys=True), []).append((seed, key))
        for npk, lst in by_np.items():
            name, params = json.loads(npk)
            if not has_continuous_dof(name, params):
                continue
            if len(lst) == 1:
                # evaluate other seeds so that every triple is compared at least once: a neighbour, and
                # the seeds that collide with it if seeds were reduced modulo 2**32 or 2**64
                s0 = lst[0][0]
                lst = lst + [(s0 ^ 1, None), (s0 + 2**32, None), (s0 + 2**64, None)]
            outs = []
            for seed, key in lst:
                outs.append((seed, ref[key] if key else call_gen(R, name, params, seed)))
            for a in range(len(outs)):
                for b in range(a + 1, len(outs)):
                    if outs[a][1][0] == "ok" and outs[b][1][0] == "ok":
                        res.checks_sim += 1
                        if same(outs[a][1], outs[b][1]):
                            res.violate("C19.distinct", gen=name, params=params, seeds=[outs[a][0], outs[b][0]])

    # ---- reach ---------------------------------------------------------------
    if sch.switches_inside:
        res.probe("switch_inside_generator", sch.switches_inside)
    adv_between = 0
    for i in range(n_clients):
        evs = [(s0, s1) for (_, _, _, s0, s1) in records[i]]
        if evs:
            lo, hi = evs[0][0], evs[-1][1]
            adv_between += sum(1 for w in global_writes if lo < w < hi)
    if adv_between:
        res.probe("adversary_write_between_events", adv_between)
    if any(v >= 3 for v in counts.values()):
        res.probe("triple_evaluated_3x")
    for ops in client_ops:
        for op in ops:
            if op["op"] == "gen" and isinstance(op["params"].get("dim"), list):
                res.probe("list_dim_used")
            if op.get("variant"):
                res.probe("variant_call:" + op["variant"])
            if op.get("hard_case"):
                res.probe("hard_case_used")
    res.probe("entropy_requests", ent.requests)
    res.nontrivial = bool(sch.switches_inside and adv_between and any(v >= 3 for v in counts.values()))
    res.interleaving = sch.interleaving_digest()
    res.case_key = "%016x" % mix(json.dumps(client_ops, sort_keys=True), json.dumps(adv_ops, sort_keys=True), res.interleaving)
    res.sim_time = float(sch.steps)
    res.sample = {"clients": client_ops, "adversary": adv_ops, "switches": sch.switches, "switches_inside_library": sch.switches_inside, "preemption_points": sch.steps, "config": res.info["config"]}
    return res


def expand_gen_calls(op):
    """The (name, params, seed) generator calls an op will make (for the reference model)."""
    if op["op"] == "gen":
        return [(op["name"], op["params"], op["seed"], op.get("seed_form", "int"))]
    if op["op"] == "pgm":
        if op.get("near_basis"):
            return [("random_unitary", {"dim": op["d"], "is_real": False}, op["seed"], "int")]
        if op["pure"]:
            return [("random_states", {"n": op["n"], "d": op["d"]}, op["seed"], "int")]
        return [("random_density_matrix", {"dim": op["d"], "is_real": False, "k_param": None, "distance_metric": "haar"}, (op["seed"] + j) % (2**32), "int") for j in range(op["n"])]
    if op["op"] == "measure":
        calls = [("random_density_matrix", {"dim": op["d"], "is_real": op.get("state_form", "complex") != "complex", "k_param": None, "distance_metric": "haar"}, op["seed"], "int")]
        if op["mkind"] in ("povm_sqrt", "incomplete", "isometric"):
            calls.append(("random_povm", {"dim": op["d"], "num_inputs": 1, "num_outputs": op["outs"]}, op["seed"], "int"))
        elif op["mkind"] == "basis_int":
            pass  # computational-basis projectors written down by hand: integer arrays, no generator call
        else:
            calls.append(("random_unitary", {"dim": op["d"], "is_real": False}, op["seed"], "int"))
        return calls
    return []


def scribble(obj):
    """What a caller does with an array it was handed: work on it in place (`U += U.conj().T`, `basis[0] *= 0`).
    The object is the caller's; nothing the library returns later may depend on it."""
    if isinstance(obj, np.ndarray):
        try:
            obj *= 0
            obj += 3
        except (ValueError, TypeError):
            pass  # read-only result or a dtype that cannot hold it: nothing to write
    elif isinstance(obj, (list, tuple)):
        for x in obj:
            scribble(x)


def exec_op(R, pgm_f, pbm_f, measure_f, op, live=None, scribble_after=False):
    """Runs inside a client thread (traced).  Only library calls, no oracles."""
    out = {"calls": []}
    for name, params, seed, form in expand_gen_calls(op):
        got = call_gen(R, name, params, seed, form, live=live)
        if scribble_after and op["op"] == "gen" and got[0] == "ok":
            kept = ("ok", copy.deepcopy(got[1]))  # what the oracles judge: the object as it was returned
            scribble(got[1])
            got = kept
            out["scribbled"] = True
        out["calls"].append((name, params, seed, got, form))
    if op["op"] == "pgm":
        objs = [c[3] for c in out["calls"]]
        if any(o[0] != "ok" for o in objs):
            return out
        states = list(objs[0][1]) if op["pure"] else [o[1] for o in objs]
        if op.get("near_basis"):
            u = objs[0][1]
            states = [u[:, j:j + 1].copy() for j in range(op["d"])]
        form = op.get("form", 0)
        if op["pure"] and form == 1:  # 1-D vectors
            states = [np.asarray(v).reshape(-1) for v in states]
        elif op["pure"] and form == 2:  # kets and density matrices mixed in one list
            states = [v if j % 2 == 0 else v @ v.conj().T for j, v in enumerate(states)]
        wts = [float(x) for x in op["weights"]]
        if op.get("near_basis"):
            # an orthonormal basis with an almost uniform prior: the average state is within `near_basis` of the
            # maximally mixed state without being equal to it
            wts = [1.0 + op["near_basis"] * (((j * 7 + op["seed"]) % 5) - 2) for j in range(op["d"])]
        if op.get("tiny_prior") and not op["uniform_default"] and not op.get("near_basis"):
            wts[-1] = op["tiny_prior"] * sum(wts[:-1])
        tot = float(sum(wts))
        probs = None if (op["uniform_default"] and not op.get("near_basis")) else [w / tot for w in wts]
        if probs is not None and op.get("probs_array"):
            probs = np.array(probs)
        out["states"], out["probs"] = states, probs
        try:
            out["pgm"] = ("ok", pgm_f(states, probs))
        except Exception as e:
            out["pgm"] = ("exc", type(e).__name__, str(e)[:200])
        if op["bad"]:
            try:
                out["pbm"] = ("ok", pbm_f(states, probs))
            except Exception as e:
                out["pbm"] = ("exc", type(e).__name__, str(e)[:200])
    elif op["op"] == "measure":
        objs = [c[3] for c in out["calls"]]
        if any(o[0] != "ok" for o in objs):
            return out
        rho = objs[0][1]
        d = op["d"]
        form = op.get("state_form", "complex")
        if form == "real":
            rho = np.real(rho).copy()  # a real density matrix held in a float array
        elif form == "int_basis":
            rho = np.zeros((d, d), dtype=int)  # a computational-basis state held in an integer array
            rho[op["seed"] % d, op["seed"] % d] = 1
        elif form == "real_pure":
            vv = np.real(rho[:, 0]).copy()
            vv = vv / np.linalg.norm(vv) if np.linalg.norm(vv) > 0 else np.eye(d)[0]
            rho = np.outer(vv, vv)
        if op["mkind"] in ("povm_sqrt", "incomplete", "isometric"):
            povm = objs[1][1]
            kraus = [models.psd_sqrt(povm[:, :, 0, a]) for a in range(povm.shape[3])]
            if op["mkind"] == "incomplete":
                kraus = kraus[:-1]
            if op["mkind"] == "isometric":
                # Kraus operators into a larger output space: K_a = V sqrt(M_a), V an isometry d -> d + 1
                v_iso = np.eye(d + 1, d)
                kraus = [v_iso @ kk for kk in kraus]
        elif op["mkind"] == "basis_int":
            kraus = []
            for j in range(d):
                pj = np.zeros((d, d), dtype=int)
                pj[(j + op["seed"]) % d, (j + op["seed"]) % d] = 1
                kraus.append(pj)
        elif op["mkind"] == "projective":
            u = objs[1][1]
            kraus = [np.outer(u[:, j], u[:, j].conj()) for j in range(d)]
        else:
            u = objs[1][1]
            kraus = np.outer(u[:, 0], u[:, 0].conj())
        out["rho"], out["kraus"] = rho, kraus
        arg = tuple(kraus) if (op.get("as_tuple") and isinstance(kraus, list)) else kraus
        try:
            out["measure"] = ("ok", measure_f(rho, arg, state_update=op["update"]))
        except Exception as e:
            out["measure"] = ("exc", type(e).__name__, str(e)[:200])
    return out


# ----------------------------------------------------------------------------
# oracles
# ----------------------------------------------------------------------------

def has_continuous_dof(name, p):
    if name in ("random_unitary", "random_orthonormal_basis"):
        d = p["dim"][0] if isinstance(p["dim"], list) else p["dim"]
        return d >= 2 or not p["is_real"]
    if name == "random_density_matrix":
        return p["dim"] >= 2
    if name == "random_psd_operator":
        return True
    if name == "random_state_vector":
        tot = int(np.prod(p["dim"])) if isinstance(p["dim"], list) else (p["dim"] ** 2 if 0 < p["k_param"] < p["dim"] else p["dim"])
        return tot >= 2
    if name == "random_povm":
        return p["num_outputs"] >= 2
    if name == "random_circulant_gram_matrix":
        return True
    if name == "random_states":
        return p["d"] >= 2 or True
    return True


def check_kind(res, name, params, seed, o):
    """Own numpy validity checks; never toqito's is_* predicates."""
    res.checks_workload += 1
    inv = "C19.kind." + name
    if o[0] == "exc":
        res.violate(inv, gen=name, seed=seed, exc=o[1], msg=o[2], **_flat(params))
        return
    x = o[1]
    why = models.kind_violation(name, params, x, TOL)
    if why:
        res.violate(inv, gen=name, seed=seed, exc=None, why=why, **_flat(params))


def _flat(params):
    return {k: v for k, v in params.items()}


def check_pgm(res, op, out, tier, cs):
    if "pgm" not in out:
        return
    states, probs = out["states"], out["probs"]
    n = len(states)
    p = probs if probs is not None else [1.0 / n] * n
    rhos = [models.to_dm(s) for s in states]
    avg = sum(pi * r for pi, r in zip(p, rhos))
    lam_min = float(np.linalg.eigvalsh(avg)[0])
    if lam_min < 1e-8:
        res.probe("pgm_nonspanning_skipped")
        return
    if lam_min < 1e-4:
        res.probe("pgm_ill_conditioned_spanning")
    res.probe("pgm_checked")
    res.checks_workload += 1
    if out["pgm"][0] != "ok":
        res.violate("C19.pgm.povm", why="exception", exc=out["pgm"][1], msg=out["pgm"][2], n=n, d=op["d"], pure=op["pure"], lam_min=lam_min)
        return
    M = out["pgm"][1]
    # rounding of rho^{-1/2} grows like eps / lam_min (observed on the clean tree: about 1e-9 at lam_min = 1e-7)
    slack = 1e-7 + 2e-12 / lam_min
    why = models.povm_violation(M, op["d"], n, slack)
    try:
        res.margin("pgm_sum_minus_identity", float(np.max(np.abs(sum(M) - np.eye(op["d"])))) / slack)
    except Exception:
        pass
    if why:
        res.violate("C19.pgm.povm", why=why, n=n, d=op["d"], pure=op["pure"], lam_min=lam_min)
        return
    p_pgm = float(sum(pi * np.real(np.trace(m @ r)) for pi, m, r in zip(p, M, rhos)))
    if n == 2:
        p_opt = models.helstrom(p, rhos)
        res.checks_workload += 1
        if not (p_opt**2 - 1e-7 <= p_pgm <= p_opt + 1e-7):
            res.violate("C19.pgm.bounds", p_pgm=p_pgm, p_opt=p_opt, n=n, d=op["d"], pure=op["pure"])
    else:
        # P_pgm <= 1 and >= max prior squared hold without an optimiser; the SDP optimum is sampled
        pmax = max(p)
        res.checks_workload += 1
        if not (pmax**2 - 1e-7 <= p_pgm <= 1 + 1e-7):
            res.violate("C19.pgm.bounds", p_pgm=p_pgm, p_opt_lower=pmax, n=n, d=op["d"], pure=op["pure"])
        gate = cs.s("config:sdp").draw(40 if tier == "quick" else 8)
        if gate == 1:
            p_opt = models.min_error_sdp(p, rhos)
            if p_opt is not None:
                res.probe("popt_sdp_checked")
                res.checks_workload += 1
                if not (p_opt**2 - 1e-4 <= p_pgm <= p_opt + 1e-4):
                    res.violate("C19.pgm.bounds", p_pgm=p_pgm, p_opt=p_opt, n=n, d=op["d"], pure=op["pure"], via="sdp")
    if "pbm" in out:
        res.checks_workload += 1
        if out["pbm"][0] != "ok":
            res.violate("C19.pbm.povm", why="exception", exc=out["pbm"][1], msg=out["pbm"][2], n=n, d=op["d"])
        else:
            why = models.povm_violation(out["pbm"][1], op["d"], n, slack)
            if why:
                res.violate("C19.pbm.povm", why=why, n=n, d=op["d"], pure=op["pure"], lam_min=lam_min)


def check_measure(res, op, out):
    if "measure" not in out:
        return
    res.probe("measure_checked")
    rho, kraus = out["rho"], out["kraus"]
    single = not isinstance(kraus, list)
    ks = [kraus] if single else kraus
    exp_p = [float(np.real(np.trace(k.conj().T @ k @ rho))) for k in ks]
    complete = np.allclose(sum(k.conj().T @ k for k in ks), np.eye(op["d"]), atol=1e-9)
    res.checks_workload += 1
    m = out["measure"]
    if m[0] != "ok":
        # the only documented rejection: incomplete Kraus set with state_update and all outcomes non-zero
        if m[1] == "ValueError" and not complete and op["update"] and not single:
            res.probe("measure_incomplete_rejected")
            return
        res.violate("C19.measure.born", why="exception", exc=m[1], msg=m[2], mkind=op["mkind"], d=op["d"], update=op["update"])
        return
    val = m[1]
    try:
        items = [val] if single else list(val)
        if len(items) != len(ks):
            raise ValueError("length")
        got_p, posts = [], []
        for it in items:
            if op["update"]:
                got_p.append(float(it[0]))
                posts.append(np.asarray(it[1]))
            else:
                got_p.append(float(it))
    except Exception as e:
        res.violate("C19.measure.born", why="malformed result: %s" % type(e).__name__, mkind=op["mkind"], d=op["d"], update=op["update"])
        return
    if not np.allclose(got_p, exp_p, atol=1e-9) or min(got_p) < -1e-12:
        res.violate("C19.measure.born", why="probabilities differ from Tr(K^dagger K rho)", got=got_p, expected=exp_p, mkind=op["mkind"], d=op["d"], update=op["update"])
        return
    if complete and abs(sum(got_p) - 1) > 1e-8:
        res.violate("C19.measure.born", why="complete measurement: probabilities do not sum to one", got=got_p, mkind=op["mkind"], d=op["d"], update=op["update"])
        return
    if op["update"]:
        res.checks_workload += 1
        for k, pr, post in zip(ks, exp_p, posts):
            if pr > 1e-8:
                want = k @ rho @ k.conj().T / pr
                if post.shape != want.shape or not np.allclose(post, want, atol=1e-8) or abs(np.trace(post) - 1) > 1e-8:
                    res.violate("C19.measure.post", why="post-measurement state not K rho K^dagger / p (unit trace)", p=pr, mkind=op["mkind"], d=op["d"])
                    return
