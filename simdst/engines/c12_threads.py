"""C12 engine HT: two callers, each with its own list of states, interleaved at line granularity."""

from __future__ import annotations

import json

import numpy as np

from ..core import RunResult, mix
from .c12_hist import _lib, draw_states, op_fn
from .hist_common import quiet
from .threads_common import run_clients

NAME = "HT"
PROPERTY = "C12"
RUNS = {"quick": 32, "thorough": 2000}
RUN_WALL_CAP = 150.0
REQUIRED_PROBES = {"quick": ["same_shape_ensembles_in_two_clients", "interleaved_calls_compared"], "thorough": ["same_shape_ensembles_in_two_clients", "interleaved_calls_compared"]}
COMPONENTS = {"real": ["toqito.state_opt.symmetric_extension_hierarchy / ppt_distinguishability called from 2 real threads (own lists each)", "cvxpy + SCS, picos + cvxopt (never pre-empted)"], "stub": ["thread scheduling: baton passing, pre-emption at every Python line of toqito code, decided by the choice source"]}
RULE = ("one run = 2 client threads, each owning its own ensemble (the second one mostly of the same kind, dimensions and number of states as the first, different contents) and making 1..2 calls (hierarchy level 1, PPT dual, "
        "either party), interleaved by the seeded scheduler; reference = the same call made alone on a pristine library; non-trivial = at least one switch inside a library call and >= 2 values compared")
SHRINK_ORDER = ["config", "states", "ops", "sched"]


def preload():
    _lib()
    import cvxpy  # noqa: F401
    import picos  # noqa: F401


def run(cs, tier, run_index):
    quiet()
    res = RunResult()
    lib = _lib()
    clients, desc = [], []
    first = None
    for i in range(2):
        ss = cs.s(f"states:{i}")
        like = first if (first is not None and ss.draw(4) != 0) else None
        L, probs, dims, meta = draw_states(ss, 0 if like is None else 1, like=like)
        if like is not None and len(L) == first["n"]:
            res.probe("same_shape_ensembles_in_two_clients")
        if first is None:
            first = meta
        os_ = cs.s(f"ops:{i}")
        ops = []
        for j in range(os_.int_range(1, 2)):
            if meta["kind"] == "vec1d" or os_.draw(3) == 0:
                op = {"op": "ppt", "party": os_.draw(2), "form": "dual"}
            else:
                op = {"op": "seh", "level": 1, "dim": "list"}
            pub = dict({k: v for k, v in meta.items() if not k.startswith("_")}, **op)

            def make_fn(L=L, probs=probs, dims=dims, op=op):
                own = [np.array(x, copy=True) for x in L]
                return op_fn(lib, own, None if probs is None else list(probs), list(dims), op)

            ops.append((op["op"], make_fn, pub))
            desc.append([i, pub])
        clients.append(ops)
    sch, results = run_clients(cs, res, "C12", clients, RUN_WALL_CAP - 10)
    res.case_key = "%016x" % mix(json.dumps(desc, sort_keys=True, default=str), res.interleaving)
    res.sample = {"clients": desc, "switches_inside_library": sch.switches_inside, "values": [[r[1] if r and r[0] == "ok" else None for r in row] for row in results]}
    return res
