"""Shared by the history engines (one long-lived object, calls in any order)."""

from __future__ import annotations

import warnings

import numpy as np
import numpy.random.bit_generator as _bg

from ..seams import _REAL_RANDBITS

TAU = 1e-3  # slack for SDP-valued orderings on quantities in [0, 1] (calibration: DESIGN 3.8)
SAME = 1e-6  # same operation, same data, same entropy: pristine vs after-history


class SeqEntropy:
    """Entropy seam for one library call: the k-th request is answered with a
    fixed function of (e0, k), so the same call can be repeated on a pristine
    object under identical entropy."""

    def __init__(self, e0):
        self.e0 = e0
        self.k = 0

    def __call__(self, nbits):
        v = (self.e0 * 0x9E3779B97F4A7C15F39CC0605CEDC835 + (self.k + 1) * 0xD1B54A32D192ED03F58A1B3C2D4E5F67) & ((1 << 128) - 1)
        self.k += 1
        return v & ((1 << nbits) - 1)


class with_entropy:
    def __init__(self, e0):
        self.ent = SeqEntropy(e0)

    def __enter__(self):
        _bg.randbits = self.ent
        return self.ent

    def __exit__(self, *a):
        _bg.randbits = _REAL_RANDBITS


SOLVER_FAIL_NAMES = ("SolverError", "SolutionFailure", "ArithmeticError", "ZeroDivisionError", "LinAlgError")


# What counts as "the operation failed" rather than "the library is wrong": a numerical solver giving up.
# Everything else raised on a valid input (TypeError, IndexError, OverflowError, a shape error ...) is the
# library failing to compute the value the property promises, and is reported.
SOLVER_FAILURES = {"SolverError", "ArithmeticError", "SolutionFailure", "FloatingPointError"}


def call_value(fn, res, label, prop=None, allow=None):
    """Call a value method.  ('ok', float) | ('fail', kind).  Solver failures and non-finite optima are
    operation-failed outcomes: counted, never violations.  With `prop` given, any other exception is a violation
    `<prop>.op.raises`; `allow(exception)` may name further legitimate failures of this particular call."""
    with warnings.catch_warnings():
        warnings.simplefilter("ignore")
        try:
            v = fn()
        except Exception as e:
            kind = type(e).__name__
            res.failed(f"{label}:{kind}")
            legit = kind in SOLVER_FAILURES or (allow is not None and allow(e))  # exact class: OverflowError is an ArithmeticError too
            if prop is not None and not legit:
                res.violate(f"{prop}.op.raises", op=label, exc=kind, msg=str(e)[:200])
            return ("fail", kind, str(e)[:160])
    try:
        f = float(np.real(v))
    except Exception:
        res.failed(f"{label}:non_numeric")
        if prop is not None:
            res.violate(f"{prop}.op.raises", op=label, why="result is not a number", got=repr(v)[:80])
        return ("fail", "non_numeric", repr(v)[:80])
    if not np.isfinite(f):
        res.failed(f"{label}:non_finite")
        return ("fail", "non_finite", repr(v))
    return ("ok", f)


CONTAINERS = [("array", 6), ("matrix", 2), ("fortran", 1), ("view", 1)]


def draw_container(st):
    """The same numbers in another container.  Representation is part of the configuration space."""
    return st.weighted(CONTAINERS)


def contain(a, form):
    """ndarray copy / np.matrix (2-D only; `*` is the matrix product there) / Fortran order / a strided view
    into a larger array."""
    a = np.asarray(a)
    if form == "matrix" and a.ndim == 2:
        return np.matrix(a)
    if form == "fortran":
        return np.asfortranarray(a)
    if form == "view" and a.ndim >= 1 and a.size:
        big = np.zeros(tuple(2 * n for n in a.shape), dtype=a.dtype)
        sel = (slice(None, None, 2),) * a.ndim
        big[sel] = a
        return big[sel]
    return a.copy()


def clone(obj, how):
    """What a caller does with a long-lived object besides calling it: copy it, deep-copy it, send it through
    pickle (a process boundary, a cache on disk).  The clone must be the same game."""
    import copy
    import pickle

    if how == 0:
        return copy.deepcopy(obj)
    if how == 1:
        return pickle.loads(pickle.dumps(obj))
    return copy.copy(obj)


def quiet():
    warnings.filterwarnings("ignore")


class SimInterrupt(KeyboardInterrupt):
    """What a caller's Ctrl-C, an in-process timeout or a cancelled task delivers: an asynchronous exception
    that surfaces at a line boundary of library code.  A KeyboardInterrupt subclass, so library code that
    handles one handles the other, and `except Exception` does not swallow it."""


_PREFIX = None


def _library_prefix():
    global _PREFIX
    if _PREFIX is None:
        import os

        import toqito.nonlocal_games as pkg

        _PREFIX = os.path.dirname(os.path.dirname(os.path.abspath(pkg.__file__))) + os.sep
    return _PREFIX


def maybe_interrupted_call(cs, res, fn, one_in=6):
    """Fault: with probability 1/one_in (own stream, so the rest of the run is what it would have been) the
    call about to be made is first attempted and ABORTED at a drawn line boundary inside library code - the
    user interrupts the cell, a timeout fires - and then made again in full by the caller.  The aborted
    attempt is never judged.  What is judged, by the invariants the history already has, is everything after
    it: the object and the caller's data are unchanged, and every later value is what a pristine library
    gives.  Only frames of toqito files are interrupted, never a third-party solver mid-operation."""
    import sys

    st = cs.s("intr")
    if st.draw(one_in) != 0:
        return False
    n = st.draw(40) if st.draw(2) else st.draw(1500)
    prefix = _library_prefix()
    count = [0]
    fired = [None]

    def local(frame, event, arg):
        if event == "line":
            count[0] += 1
            if count[0] > n and fired[0] is None:
                fired[0] = "%s:%d" % (frame.f_code.co_name.lstrip("_"), frame.f_lineno)
                raise SimInterrupt()
        return local

    def glob(frame, event, arg):
        if fired[0] is None and event == "call" and frame.f_code.co_filename.startswith(prefix):
            return local
        return None

    prev = sys.gettrace()
    sys.settrace(glob)
    try:
        with warnings.catch_warnings():
            warnings.simplefilter("ignore")
            fn()
    except SimInterrupt:
        pass
    except Exception:
        pass  # the attempt is not judged; the full call that follows is
    finally:
        sys.settrace(prev)
    if fired[0] is not None:
        res.fault("call_interrupted")
        res.probe("call_interrupted_then_repeated")
        res.log.add("interrupt", fired[0], count[0])
        return True
    res.probe("interrupt_after_call_end")
    return False
