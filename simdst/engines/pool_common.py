"""Shared by the C07 / C08 pool engines: game generation for the pool branch
and the call through the simulated multiprocessing module."""

from __future__ import annotations

import numpy as np

from ..simpool import PoolSim, patched_futures

# (outputs, inputs) of the enumerated player with 1000 < outputs**inputs <= 4096
ENUM_SHAPES = [(2, 10), (2, 11), (2, 12), (3, 7), (4, 5), (4, 6), (5, 5), (6, 4), (7, 4), (8, 4), (11, 3), (13, 3), (16, 3), (32, 2), (45, 2), (64, 2)]
# candidate shapes for the other player (must have at least as many strategies)
OTHER_SHAPES = [(2, 10), (2, 11), (2, 12), (2, 13), (3, 7), (3, 8), (4, 5), (4, 6), (5, 5), (5, 6), (6, 5), (7, 4), (8, 4), (9, 4), (11, 4), (16, 3), (17, 3), (64, 2), (70, 2), (3, 9), (2, 14)]


REVERSALS = [(0, 1), (0, 2), (1, 3), (0, 1, 2, 3), (0,), (1,), (2, 3)]


def symmetric_game(st, rng, shape, prob):
    """A predicate that is invariant under a relabelling (reversal of some of the four index axes, or a
    simultaneous cyclic shift of both answer alphabets), with an optimal strategy pair planted on interior
    answers.  Relabelling symmetries are what 'enumerate one representative per orbit' shortcuts rely on; the
    planted optimum sits where an orbit argument that is only valid for two answers loses it.  Returns
    (prob, pred, description); the questions' distribution is symmetrised too when question axes take part."""
    a_out, b_out, a_in, b_in = shape
    base = rng.random(shape) * (0.6 if st.draw(2) else 0.0)
    if st.draw(3) == 0:
        base = np.maximum(base, (rng.random(shape) < 0.2).astype(float) * 0.7)
    f = [int(v) for v in rng.integers(0, a_out, size=a_in)]
    g = [int(v) for v in rng.integers(0, b_out, size=b_in)]
    if st.draw(4) != 0:  # interior answers to the first (and last) question of both players
        f[0] = f[-1] = (a_out - 1) // 2 if a_out % 2 else a_out // 2 - st.draw(2)
        g[0] = g[-1] = (b_out - 1) // 2 if b_out % 2 else b_out // 2 - st.draw(2)
    for x in range(a_in):
        for y in range(b_in):
            base[f[x], g[y], x, y] = 1.0
    kind = st.weighted([("reverse", 4), ("cyclic", 2)]) if a_out == b_out and a_out > 2 else "reverse"
    if kind == "reverse":
        axes = REVERSALS[st.draw(len(REVERSALS))]
        idx = tuple(slice(None, None, -1) if k in axes else slice(None) for k in range(4))
        pred = np.maximum(base, base[idx])
        pidx = tuple(slice(None, None, -1) if k + 2 in axes else slice(None) for k in range(2))
        prob = (prob + prob[pidx]) / 2
        desc = {"symmetry": "reverse", "axes": list(axes)}
    else:
        sign = 1 if st.draw(2) else -1
        pred = base
        for k in range(1, a_out):
            pred = np.maximum(pred, np.roll(np.roll(base, k, axis=0), sign * k, axis=1))
        desc = {"symmetry": "cyclic", "sign": sign}
    desc["planted"] = [f, g]
    return prob / prob.sum(), pred, desc


INT_DTYPES = ["int64", "bool", "int8", "uint8", "int32"]


def maybe_integer_dtype(st, pred, p=4):
    """A 0/1 predicate typed the way a caller who writes it down by hand would have it: an integer or bool
    array.  The game is the same game."""
    if st.draw(p) == 0 and np.all((pred == 0) | (pred == 1)):
        dt = INT_DTYPES[st.draw(len(INT_DTYPES))]
        return pred.astype(dt), dt
    return pred, None


def draw_game(st, like=None, other=None):
    """A game whose classical_value takes the pool branch.  Returns
    (prob_mat, pred_mat, meta).  With `like` (the meta of an earlier game) the new
    game has the same shape and different contents."""
    if like is not None:
        eo, ei, oo, oi, alice_enumerated = like["_shape_key"]
        s_enum = eo**ei
    else:
        eo, ei = ENUM_SHAPES[st.draw(len(ENUM_SHAPES))]
        s_enum = eo**ei
        alice_enumerated = bool(st.draw(2))
        cands = [(o, i) for (o, i) in OTHER_SHAPES if (o**i > s_enum if alice_enumerated else o**i >= s_enum) and o * i * eo * ei <= 6000]
        oo, oi = cands[st.draw(len(cands))] if other is None else other
    if alice_enumerated:
        a_out, a_in, b_out, b_in = eo, ei, oo, oi
    else:
        a_out, a_in, b_out, b_in = oo, oi, eo, ei
    rng = st.nprng()
    pk = st.weighted([("binary", 3), ("planted", 5), ("fractional", 3), ("sparse_binary", 2), ("mixed", 1), ("symmetric", 3)])
    shape = (a_out, b_out, a_in, b_in)
    planted = None
    if pk == "planted":
        # a unique optimal strategy at an adversarial position of the enumeration
        # (first / last / around chunk boundaries of a 4*workers chunking / anywhere)
        pos_kind = st.weighted([("last", 3), ("first", 1), ("near_end", 3), ("chunk_edge", 3), ("anywhere", 3)])
        if pos_kind == "last":
            idx = s_enum - 1
        elif pos_kind == "first":
            idx = 0
        elif pos_kind == "near_end":
            idx = s_enum - 1 - st.draw(min(64, s_enum))
        elif pos_kind == "chunk_edge":
            w = [1, 2, 3, 4, 8, 16, 32, 61][st.draw(8)]
            csz = -(-s_enum // (4 * w))
            k = st.draw(max(1, s_enum // csz))
            idx = min(s_enum - 1, k * csz + [0, csz - 1][st.draw(2)])
        else:
            idx = st.draw(s_enum)
        digits = []
        n = idx
        for _ in range(ei):
            n, r = divmod(n, eo)
            digits.append(r)
        g_star = digits[::-1]  # answer of the enumerated player per question, most significant first
        f_star = [int(v) for v in rng.integers(0, oo, size=oi)]
        noise = rng.random(shape) * 0.3 * (rng.random(shape) < 0.5)
        pred = noise
        for qe in range(ei):
            for qo in range(oi):
                if alice_enumerated:
                    pred[:, :, qe, qo] = noise[:, :, qe, qo]
                    pred[g_star[qe], f_star[qo], qe, qo] = 1.0
                else:
                    pred[f_star[qo], g_star[qe], qo, qe] = 1.0
        planted = {"index": idx, "position": pos_kind}
    elif pk == "binary":
        pred = (rng.random(shape) < 0.5).astype(float)
    elif pk == "sparse_binary":
        pred = (rng.random(shape) < 0.15).astype(float)
    elif pk == "fractional":
        pred = rng.random(shape)
    elif pk == "symmetric":
        pred = None
    else:
        pred = np.where(rng.random(shape) < 0.5, rng.random(shape), (rng.random(shape) < 0.5).astype(float))
    qk = st.weighted([("uniform", 3), ("dirichlet", 3), ("with_zeros", 3)])
    if planted is not None and qk == "with_zeros":
        qk = "dirichlet"  # keep the planted optimum unique
    if qk == "uniform":
        prob = np.full((a_in, b_in), 1.0 / (a_in * b_in))
    else:
        prob = rng.random((a_in, b_in)) ** 2
        if qk == "with_zeros":
            prob = prob * (rng.random((a_in, b_in)) < 0.5)
            if prob.sum() == 0:
                prob[0, 0] = 1.0
        prob = prob / prob.sum()
    sym = None
    if pk == "symmetric":
        prob, pred, sym = symmetric_game(st, rng, shape, prob)
    pred, int_dtype = maybe_integer_dtype(st, pred, 5)
    meta = {"shape": list(shape), "pred_kind": pk, "prob_kind": qk, "enumerated": "alice" if alice_enumerated else "bob", "strategies": s_enum, "_shape_key": [eo, ei, oo, oi, alice_enumerated]}
    if planted is not None:
        meta["planted"] = planted
    if sym is not None:
        meta["symmetric"] = sym
    if int_dtype is not None:
        meta["pred_dtype"] = int_dtype
    return prob, pred, meta


def make_sim(cs, res, stream_name, watch_modules, watch_classes, fault=None):
    return PoolSim(cs.s(stream_name), res, watch_modules=watch_modules, watch_classes=watch_classes, fault=fault)


class patched_mp:
    """Route a module's `multiprocessing` attribute through the simulated pool."""

    def __init__(self, module, sim, more_modules=()):
        self.module, self.sim = module, sim
        self.modules = [module] + [m for m in more_modules if m is not module]

    def __enter__(self):
        # every watched module that imported `multiprocessing` gets the simulated one (the pool may live in
        # any of them after a refactor)
        self.saved_mp = []
        for m in self.modules:
            cur = getattr(m, "multiprocessing", None)
            if cur is not None:
                self.saved_mp.append((m, cur))
                m.multiprocessing = self.sim.module()
        self.saved = True
        # the other standard way to get worker processes
        self.fut = patched_futures(self.sim, self.modules)
        self.fut.__enter__()
        # the machine the code believes it runs on: the number of CPUs is part of the simulated configuration
        import os as _os

        n = self.sim.cpu_count
        self.os_saved = [(_os, "cpu_count", _os.cpu_count)]
        _os.cpu_count = lambda: n
        if hasattr(_os, "process_cpu_count"):
            self.os_saved.append((_os, "process_cpu_count", _os.process_cpu_count))
            _os.process_cpu_count = lambda: n
        if hasattr(_os, "sched_getaffinity"):
            self.os_saved.append((_os, "sched_getaffinity", _os.sched_getaffinity))
            _os.sched_getaffinity = lambda pid=0: set(range(n))
        real = self.os_saved[0][2]
        if getattr(self.module, "cpu_count", None) is real:
            self.os_saved.append((self.module, "cpu_count", real))
            self.module.cpu_count = lambda: n
        return self.sim

    def __exit__(self, *a):
        for holder, name, val in self.os_saved:
            setattr(holder, name, val)
        self.fut.__exit__()
        for m, cur in self.saved_mp:
            m.multiprocessing = cur


def pool_reach(sim, res):
    """Probes and the non-triviality rule of a pool run."""
    entered = sim.pools > 0 and sim.chunks > 0
    if entered:
        res.probe("pool_branch_entered")
    if len(sim.workers_used) >= 2 and sim.chunks >= 2:
        res.probe("two_chunks_two_workers")
    if entered and sim.max_workers == 1:
        res.probe("single_worker_pool")
    if entered and sim.max_workers >= 61:
        res.probe("sixtyone_worker_pool")
    if sim.completion_order != sorted(sim.completion_order):
        res.probe("out_of_order_completion")
    if sim.worker_writes:
        res.probe("worker_wrote_watched_state", sim.worker_writes)
    res.sim_time += sim.now
    dup = [k for k, v in sim.tasks_run.items() if v != 1]
    if dup:
        raise AssertionError("SimPool executed a task %d times" % sim.tasks_run[dup[0]])
    return entered and ((len(sim.workers_used) >= 2 and sim.chunks >= 2) or sim.max_workers in (1, 61))


class isolated_module_state:
    """Whatever a run (or a mutant under test) leaves in the module-level / class-level data of the
    watched modules is undone when the run ends, so that runs executed by the same worker process do
    not influence each other (one seed = one exactly repeatable execution)."""

    def __init__(self, modules, classes):
        self.probe = PoolSim.__new__(PoolSim)
        self.probe.watch_modules, self.probe.watch_classes = list(modules), list(classes)

    def __enter__(self):
        self.before = {}
        for key, obj in self.probe._targets():
            self.before[key] = {k: getattr(obj, k) for k in PoolSim._data_names(obj)}
        self.copy = self.probe.snapshot()
        return self

    def __exit__(self, *a):
        for key, obj in self.probe._targets():
            was = self.before[key]
            for k in list(PoolSim._data_names(obj)):
                if k not in was:
                    try:
                        delattr(obj, k)
                    except Exception:
                        pass
            for k in was:
                # prefer the deep copy taken at entry: in-place mutation of a module-level container is undone too
                setattr(obj, k, self.copy.get(key, {}).get(k, was[k]))
