"""C08 engine B8: one XORGame object, value methods in any order, judged by
own primal/dual Tsirelson models and enumeration / LP models."""

from __future__ import annotations

import json

import numpy as np

from .. import models
from ..core import RunResult, adigest, mix
from ..driver import pristine_library_state
from .hist_common import SAME, TAU, clone, quiet
from .hist_common import call_value as _call_value, maybe_interrupted_call

NAME = "B8"
PROPERTY = "C08"
RUNS = {"quick": 200, "thorough": 5000}
RUN_WALL_CAP = 180.0
REQUIRED_PROBES = {"quick": ["np_matrix_input", "rectangular", "degenerate_row", "reps_gt_1", "quantum_bracketed", "npa1_compared", "method_repeated", "tol_given", "quantum_gap", "two_objects_same_shape", "disconnected_question_graph"], "thorough": ["rectangular", "degenerate_row", "reps_gt_1", "reps_3", "quantum_bracketed", "npa1_compared", "method_repeated", "tol_given", "quantum_gap"]}
COMPONENTS = {"real": ["toqito.nonlocal_games.XORGame (constructor, quantum_value, classical_value, nonsignaling_value, to_nonlocal_game)", "NonlocalGame.classical_value / nonsignaling_value / commuting_measurement_value_upper_bound(1)", "toqito.helper.npa_constraints", "cvxpy + SCS/Clarabel"], "stub": []}
RULE = ("one run = one XORGame object, sometimes with a second object of the same shape used in between (1..5 x 1..5 questions, rectangular, zero rows/columns, uniform / skewed distributions, disconnected question graphs with a satisfiable and a frustrated component, predicate dtype int/bool/float/int8/uint8/uint64, containers ndarray / np.matrix / Fortran order / strided view, the caller editing a converted game it was handed, reps 1..3, tol given or defaulted) and 3..6 "
        "value-method calls in seeded order with repetition; reference = rigorous bracket [bias of explicit unit vectors, dual-feasible certificate] from own SDPs, +/-1 enumeration, LP; "
        "non-trivial = >=2 distinct methods, one repeated, and the game is not won classically with certainty; distinct = distinct digest of (game, operation sequence)")
SHRINK_ORDER = ["config", "game", "ops", "intr"]
KG = 1.7823


def call_value(fn, res, label):
    return _call_value(fn, res, label, prop="C08")



def _mods():
    import toqito.nonlocal_games.nonlocal_game as M
    import toqito.nonlocal_games.xor_game as X

    return M, X


def preload():
    _mods()
    import cvxpy  # noqa: F401
    import scipy.optimize  # noqa: F401


def draw_game(st, like=None):
    q0, q1 = st.int_range(1, 5), st.int_range(1, 5)
    if st.draw(5) == 0:
        # between the small games and the pool-sized ones (>= 10 questions): 6..9 questions on a side, where the
        # sequential enumeration of the classical value runs over several hundred strategies
        m = st.weighted([(9, 4), (8, 2), (7, 1), (6, 1)])  # 2**9 = 512 strategies: more than one block of 256
        o = m + st.draw(4)
        q0, q1 = (m, o) if st.draw(2) else (o, m)
    if like is not None:
        q0, q1 = like["shape"]
    rng = st.nprng()
    qk = st.weighted([("uniform", 3), ("dirichlet", 4), ("zero_row", 3), ("sparse", 2)])
    if qk == "uniform":
        prob = np.full((q0, q1), 1.0 / (q0 * q1))
    else:
        prob = rng.random((q0, q1)) ** 2 + 1e-3
        if qk == "sparse":
            prob = prob * (rng.random((q0, q1)) < 0.5)
        if qk == "zero_row" and q0 > 1:
            prob[rng.integers(0, q0), :] = 0.0
        if qk == "zero_row" and q1 > 1 and st.draw(2):
            prob[:, rng.integers(0, q1)] = 0.0
        if prob.sum() == 0:
            prob[0, 0] = 1.0
        prob = prob / prob.sum()
    pred = (rng.random((q0, q1)) < 0.5).astype(int)
    if like is None and q0 >= 3 and q1 >= 3 and st.draw(3) == 0:
        # disconnected question graph: the support of the distribution splits into components, one of
        # them perfectly satisfiable (f = s_x xor t_y), another one frustrated (a CHSH-like 2x2 block)
        qk = "components"
        sat_first = bool(st.draw(2))
        r_sat = list(range(0, q0 - 2)) if sat_first else list(range(2, q0))
        c_sat = list(range(0, q1 - 2)) if sat_first else list(range(2, q1))
        r_fr = [q0 - 2, q0 - 1] if sat_first else [0, 1]
        c_fr = [q1 - 2, q1 - 1] if sat_first else [0, 1]
        prob = np.zeros((q0, q1))
        pred = np.zeros((q0, q1), dtype=int)
        s_bits, t_bits = rng.integers(0, 2, size=q0), rng.integers(0, 2, size=q1)
        for x in r_sat:
            for y in c_sat:
                if rng.random() < 0.7 or (x == r_sat[0] and y == c_sat[0]):
                    prob[x, y] = rng.random() + 0.05
                    pred[x, y] = s_bits[x] ^ t_bits[y]
        for i, x in enumerate(r_fr):
            for j, y in enumerate(c_fr):
                prob[x, y] = rng.random() + 0.2
                pred[x, y] = (i & j) ^ int(s_bits[x] ^ t_bits[y])
        w = 0.1 + 0.8 * rng.random()
        sat_mass = prob[np.ix_(r_sat, c_sat)].sum()
        fr_mass = prob[np.ix_(r_fr, c_fr)].sum()
        prob[np.ix_(r_sat, c_sat)] *= w / sat_mass
        prob[np.ix_(r_fr, c_fr)] *= (1 - w) / fr_mass
    reps = st.weighted([(1, 6), (2, 3), (3, 2)])
    dt = st.weighted([("int64", 4), ("bool", 1), ("float64", 1), ("int8", 1), ("uint8", 1), ("uint64", 1)])
    pred = pred.astype({"int64": np.int64, "bool": bool, "float64": float, "int8": np.int8, "uint8": np.uint8, "uint64": np.uint64}[dt])
    return prob, pred, reps, {"shape": [q0, q1], "prob_kind": qk, "reps": reps, "pred_dtype": dt}


def run(cs, tier, run_index):
    quiet()
    res = RunResult()
    M, X = _mods()
    cfg = cs.s("config")
    tol_given = bool(cfg.draw(2))
    prob, pred, reps, meta = draw_game(cs.s("game"))
    q0, q1 = meta["shape"]
    meta["tol_given"] = tol_given
    if q0 != q1:
        res.probe("rectangular")
    if np.any(prob.sum(axis=1) == 0) or np.any(prob.sum(axis=0) == 0):
        res.probe("degenerate_row")
    if reps > 1:
        res.probe("reps_gt_1")
    if reps == 3:
        res.probe("reps_3")
    if tol_given:
        res.probe("tol_given")
    if meta["prob_kind"] == "components":
        res.probe("disconnected_question_graph")

    # `tol` only governs the validation of the distribution: whatever admissible value is given, the values of a
    # valid game are the same.  Loose tolerances are part of the configuration space.
    tol_value = [1e-9, 1e-6, 1e-3, 0.05][cfg.draw(4)] if tol_given else None
    meta["tol"] = tol_value

    # the same numbers in another container: np.matrix (2-D, `*` is the matrix product), Fortran order, or a
    # strided view into a larger array.  The game is the same game.
    forms = [cfg.weighted([("array", 5), ("matrix", 2), ("fortran", 1), ("view", 1)]) for _ in range(2)]
    meta["containers"] = forms
    if "matrix" in forms:
        res.probe("np_matrix_input")

    def contain(a, form):
        if form == "matrix":
            return np.matrix(a)
        if form == "fortran":
            return np.asfortranarray(a)
        if form == "view":
            big = np.zeros((2 * a.shape[0], 2 * a.shape[1]), dtype=a.dtype)
            big[::2, ::2] = a
            return big[::2, ::2]
        return a.copy()

    reps_arg = reps
    if cfg.draw(3) == 0:
        reps_arg = np.int64(reps)  # what `for r in np.arange(1, 4)` hands over
        meta["reps_type"] = "np.int64"
        res.probe("numpy_integer_reps")
    current = {"prob": prob, "pred": pred}  # the game the object holds now (changes when the caller changes the game)

    def build():
        p, f = contain(current["prob"], forms[0]), contain(current["pred"], forms[1])
        return (X.XORGame(p, f, reps_arg, tol_value) if tol_given else X.XORGame(p, f, reps_arg)), (p, f)

    try:
        game, caller = build()
    except Exception as e:
        res.violate("C08.val.same_as_game", why="constructor raised on a valid XOR game", exc=type(e).__name__, msg=str(e)[:200], **meta)
        return res
    # the object is compared with its own state right after construction (a constructor may legitimately copy or
    # cast what it is given); the caller's arrays are compared with copies taken before construction
    shadow = [np.array(game.prob_mat, copy=True), np.array(game.pred_mat, copy=True)]
    caller_shadow = [prob.copy(), pred.copy()]
    holder = {"game": game}  # the object the caller currently uses (may be replaced by a copy of itself)
    interloper = None
    if cfg.draw(3) == 2 or run_index % 8 == 7:
        p2, f2, _, _ = draw_game(cs.s("game:2"), like=meta)
        tol2 = [None, 1e-9, 1e-3, 0.05][cs.s("game:2").draw(4)]
        interloper = X.XORGame(p2, f2, reps) if tol2 is None else X.XORGame(p2, f2, reps, tol2)
        res.probe("two_objects_same_shape")

    if cfg.draw(4) == 3:
        # an object of the same shape that is used and dropped before the history starts: anything keyed on id()
        # of a dead object, or cached per shape, meets the main object afterwards
        import gc

        pe, fe, _, _ = draw_game(cs.s("game:e"), like=meta)
        tmp = X.XORGame(pe, fe, reps, [1e-9, 0.05][cs.s("game:e").draw(2)])
        call_value(op_fn(tmp, "quantum"), res, "quantum(ephemeral object)")
        del tmp, pe, fe
        gc.collect()
        res.probe("ephemeral_object_before_history")

    small_product = reps == 1 or (2**reps) ** (min(q0, q1) ** reps) <= 600
    ops_s = cs.s("ops")
    n_ops = ops_s.int_range(3, 6)
    names = []
    for _ in range(n_ops):
        nm = ops_s.weighted([("quantum", 4), ("classical", 3), ("npa1", 3), ("nonsignaling", 2), ("convert_and_edit", 2)])
        if nm == "nonsignaling" and (q0 * q1) ** reps * 4**reps > 450:
            nm = "quantum"
        if nm == "npa1" and 1 + q0**reps * (2**reps - 1) + q1**reps * (2**reps - 1) > 40:
            nm = "quantum"
        if nm == "classical" and not small_product:
            nm = "quantum"
        names.append(nm)
    all_vals = {}

    def phase(prob, pred, names, offset):
        """Judge a stretch of the history during which the game object holds (prob, pred)."""
        # reference models (single-shot)
        gp, gv = models.xor_to_general(prob, pred)
        cl1 = models.xor_classical_bf(prob, pred)
        # the product game's classical value is enumerable only when its smaller strategy set is small
        if small_product:
            pp, pv = models.product_game(gp, gv, reps)
            cl_model = models.classical_value_bf(pp, pv) if reps > 1 else cl1
        else:
            pp = pv = None
            cl_model = cl1**reps  # playing the optimal single-shot strategy r times: a lower bound on the product game's classical value
        if reps == 1:
            res.checks_workload += 1
            lit = models.classical_value_bf(gp, gv)
            if abs(lit - cl1) > 1e-9:
                raise AssertionError("reference models disagree: %r vs %r" % (lit, cl1))
        bracket = models.xor_bias_bracket(prob, pred)
        if bracket is not None and bracket[1] - bracket[0] > 1e-4:
            res.failed("model:bracket_too_wide")
            bracket = None
        ns_model = None

        pristine, vals = {}, {}
        for k, nm in enumerate(names):
            if nm == "convert_and_edit":
                # the caller converts the game, checks the result, and then uses the returned object as its own:
                # scribbling on it must not reach the XOR game (or any later conversion)
                try:
                    conv = holder["game"].to_nonlocal_game()
                    cp, cv = np.asarray(conv.prob_mat), np.asarray(conv.pred_mat)
                except Exception as e:
                    res.violate("C08.val.same_as_game", why="to_nonlocal_game raised", exc=type(e).__name__, msg=str(e)[:200], position=k, history=names[:k + 1], **meta)
                    break
                res.checks_sim += 1
                res.probe("converted_game_edited_by_caller")
                if reps == 1:
                    res.checks_workload += 1
                    if cv.shape != gv.shape or not np.allclose(cv, gv) or not np.allclose(cp, gp):
                        res.violate("C08.val.same_as_game", why="converted game is not V(a,b|x,y) = [f(x,y) = a xor b] with the same distribution", position=k, history=names[:k + 1], **meta)
                # only the predicate tensor is edited: it is built by the conversion, whereas the distribution may
                # legitimately be the XOR game's own array (NonlocalGame keeps what it is given by reference)
                how = ops_s.draw(3)
                try:
                    if how == 0:
                        conv.pred_mat[-1, ...] = 0
                    elif how == 1:
                        conv.pred_mat[...] = 1 - np.asarray(conv.pred_mat)
                    else:
                        conv.pred_mat[0, ...] = 1
                except (ValueError, TypeError):
                    pass  # read-only result: nothing to scribble on
                del conv
                res.log.add("op", k, nm, how)
                continue
            if interloper is not None and ops_s.draw(2):
                call_value(op_fn(interloper, nm), res, nm + "(other object)")
            if ops_s.draw(8) == 0:
                # the caller continues with a deep copy / pickle round trip of the object (a copy must be the same game;
                # a shallow copy is not used here: it would share the arrays the caller-edit step writes to)
                how_c = ops_s.draw(2)
                try:
                    holder["game"] = clone(holder["game"], how_c)
                except Exception as e:
                    res.violate("C08.op.raises", op=["deepcopy", "pickle"][how_c], exc=type(e).__name__, msg=str(e)[:200], position=k, **meta)
                    break
                res.probe("object_cloned")
            maybe_interrupted_call(cs, res, op_fn(holder["game"], nm))
            out = call_value(op_fn(holder["game"], nm), res, nm)
            res.log.add("op", k, nm, out[1] if out[0] == "ok" else out[:2])
            res.checks_sim += 1
            if not (_same(holder["game"].prob_mat, shadow[0]) and _same(holder["game"].pred_mat, shadow[1]) and _same(caller[0], caller_shadow[0]) and _same(caller[1], caller_shadow[1]) and holder["game"].reps == reps):
                res.violate("C08.hist.order", why="XOR game object or caller arrays changed", after=nm, position=k, history=names[:k + 1], **meta)
                break
            if out[0] != "ok":
                continue
            v = out[1]
            if k == 0 and offset == 0:
                pristine[nm] = v
            else:
                if nm not in pristine:
                    with pristine_library_state():
                        g2, _ = build()
                        o2 = call_value(op_fn(g2, nm), res, nm + "(pristine)")
                    pristine[nm] = o2[1] if o2[0] == "ok" else None
                if pristine[nm] is not None:
                    res.checks_sim += 1
                    if abs(pristine[nm] - v) > SAME:
                        res.violate("C08.hist.order", op=nm, position=k, history=names[:k + 1], after_history=v, pristine=pristine[nm], **meta)
            vals.setdefault(nm, []).append(v)
            if nm == "classical":
                res.checks_workload += 1
                if abs(v - cl_model) > 1e-9:
                    res.violate("C08.val.classical", got=v, expected=cl_model, **meta)
            elif nm == "nonsignaling":
                if ns_model is None:
                    ns_model = models.nonsignaling_value_lp(pp, pv)
                if ns_model is not None:
                    res.checks_workload += 1
                    if abs(v - ns_model) > TAU:
                        res.violate("C08.val.same_as_game", why="non-signaling value differs from the LP value of the converted game", got=v, expected=ns_model, **meta)
            elif nm == "quantum" and bracket is not None:
                lo = (0.5 + 0.5 * bracket[0]) ** reps
                hi = (0.5 + 0.5 * bracket[1]) ** reps
                res.probe("quantum_bracketed")
                res.checks_workload += 2
                if v < lo - TAU:
                    res.violate("C08.val.tsirelson_lo" if reps == 1 else "C08.val.reps_power", why="below the value achieved by explicit unit vectors" + ("" if reps == 1 else " raised to the r-th power"), got=v, achieved=lo, **meta)
                if v > hi + TAU:
                    res.violate("C08.val.tsirelson_hi" if reps == 1 else "C08.val.reps_power", why="above the dual-feasible certificate" + ("" if reps == 1 else " raised to the r-th power"), got=v, certificate=hi, **meta)
        # cross-clause relations over everything seen
        if "quantum" in vals:
            qv = vals["quantum"]
            res.checks_workload += 1
            if min(qv) < cl_model - TAU:
                res.violate("C08.ord.cl_le_q", quantum=min(qv), classical=cl_model, **meta)
            if reps == 1:
                res.checks_workload += 1
                if max(qv) - 0.5 > KG * (cl1 - 0.5) + TAU:
                    res.violate("C08.ord.grothendieck", quantum=max(qv), classical=cl1, **meta)
                if max(qv) > cl1 + 1e-3:
                    res.probe("quantum_gap")
            if "npa1" in vals and reps == 1:
                res.probe("npa1_compared")
                res.checks_workload += 1
                if abs(max(qv) - min(vals["npa1"])) > TAU or abs(min(qv) - max(vals["npa1"])) > TAU:
                    res.violate("C08.val.npa1", quantum=qv, npa1=vals["npa1"], **meta)
        if "npa1" in vals:
            res.checks_workload += 1
            if min(vals["npa1"]) < cl_model - TAU:
                res.violate("C08.ord.cl_le_q", why="NPA level 1 of the converted game below the classical value", npa1=min(vals["npa1"]), classical=cl_model, **meta)
            if bracket is not None and reps == 1 and min(vals["npa1"]) < 0.5 + 0.5 * bracket[0] - TAU:
                res.violate("C08.val.npa1", why="NPA level 1 below the value achieved by explicit unit vectors", npa1=min(vals["npa1"]), achieved=0.5 + 0.5 * bracket[0], **meta)
        for nm_, vs_ in vals.items():
            all_vals.setdefault(nm_, []).extend(vs_)
        return cl1, cl_model, bracket

    cl1, cl_model, bracket = phase(prob, pred, names, 0)
    if ops_s.draw(3) == 0 and not res.violations:
        # the caller changes the game it owns - edits the arrays it constructed the object from, or assigns new
        # ones to the object's attributes - and goes on using the object.  Whatever the object now holds (it
        # may or may not have copied its input) is the game its values must belong to.
        how = ops_s.draw(3)
        rng2 = ops_s.nprng()
        new_p = rng2.random((q0, q1)) ** 2 + 1e-3
        new_p = new_p / new_p.sum()
        new_f = np.asarray(caller[1]).copy()
        ix = (int(rng2.integers(0, q0)), int(rng2.integers(0, q1)))
        new_f[ix] = 1 - new_f[ix]  # 0 <-> 1 in whatever dtype the predicate has (bool: logical not)
        try:
            if how == 0:
                caller[0][...] = new_p
            elif how == 1:
                caller[1][...] = new_f
            else:
                holder["game"].prob_mat = new_p.copy()
                holder["game"].pred_mat = new_f.copy()
        except (ValueError, TypeError):
            how = -1
        if how >= 0:
            res.probe("caller_changes_the_game")
            cur_p = np.array(np.asarray(holder["game"].prob_mat), dtype=float)
            cur_f = np.array(np.asarray(holder["game"].pred_mat))
            shadow = [np.array(holder["game"].prob_mat, copy=True), np.array(holder["game"].pred_mat, copy=True)]
            caller_shadow = [np.array(np.asarray(caller[0]), copy=True), np.array(np.asarray(caller[1]), copy=True)]
            current["prob"], current["pred"] = cur_p, cur_f
            names2 = []
            for _ in range(ops_s.int_range(2, 3)):
                nm = ops_s.weighted([("quantum", 4), ("classical", 3), ("npa1", 2), ("nonsignaling", 1)])
                if nm == "nonsignaling" and (q0 * q1) ** reps * 4**reps > 450:
                    nm = "quantum"
                if nm == "npa1" and 1 + q0**reps * (2**reps - 1) + q1**reps * (2**reps - 1) > 40:
                    nm = "quantum"
                if nm == "classical" and not small_product:
                    nm = "quantum"
                names2.append(nm)
            meta["caller_edit"] = ["prob array in place", "pred array in place", "attributes re-assigned"][how]
            phase(cur_p, cur_f, names2, len(names))
            names = names + ["caller_edit"] + names2
    vals = all_vals
    distinct = set(names)
    repeated = len(names) > len(distinct)
    if repeated:
        res.probe("method_repeated")
    res.nontrivial = len(distinct) >= 2 and repeated and cl1 < 1 - 1e-9
    res.case_key = "%016x" % mix(adigest(prob), adigest(pred), reps, tuple(names), tol_given)
    res.sample = {"game": meta, "prob": np.round(prob, 4).tolist(), "pred": pred.tolist(), "ops": names, "values": {k: [round(x, 6) for x in v] for k, v in vals.items()}, "classical_model": cl_model, "bias_bracket": bracket}
    return res


def op_fn(game, nm):
    if nm == "quantum":
        return game.quantum_value
    if nm == "classical":
        return game.classical_value
    if nm == "nonsignaling":
        return game.nonsignaling_value
    if nm == "npa1":
        return lambda: game.to_nonlocal_game().commuting_measurement_value_upper_bound(1)
    raise KeyError(nm)


def _same(a, b):
    a = np.asarray(a)
    return a.shape == b.shape and a.dtype == b.dtype and a.tobytes() == b.tobytes()
