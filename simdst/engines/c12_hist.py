"""C12 engine H: a simulated caller owns ONE list of bipartite states and
reuses it across a seeded sequence of PPT / symmetric-extension / global
discrimination calls.

Sim-decided: the calls do not modify the caller's list (length, element
identity, shape, dtype, bytes) and values do not depend on which calls came
before on the same list.  Workload invariants on the values the history
produces: LOCC <= sym-ext(2) <= sym-ext(1) = PPT <= global, primal = dual,
Bell states give 1/2, invariance under local unitaries / transposed party."""

from __future__ import annotations

import json

import numpy as np

from .. import models
from ..core import RunResult, adigest, mix
from ..driver import pristine_library_state
from .hist_common import SAME, TAU, quiet
from .hist_common import call_value as _call_value, maybe_interrupted_call

NAME = "H"
PROPERTY = "C12"
RUNS = {"quick": 220, "thorough": 5000}
RUN_WALL_CAP = 300.0
REQUIRED_PROBES = {"quick": ["kets_list", "density_list", "hierarchy_not_last", "hierarchy_then_ppt", "level2", "dims_2x3", "complex_states", "bell_list", "primal_value", "local_unitary_checked", "two_lists_same_shape", "same_ensemble_parties_swapped", "same_ensemble_other_order", "same_array_object_twice", "mixed_dtype_ensemble", "generalised_bell_kets", "dominant_white_state"], "thorough": ["kets_list", "density_list", "hierarchy_not_last", "hierarchy_then_ppt", "level2", "level2_2x3", "dims_2x3", "complex_states", "bell_list", "primal_value", "local_unitary_checked"]}
COMPONENTS = {"real": ["toqito.state_opt.ppt_distinguishability (primal and dual)", "toqito.state_opt.symmetric_extension_hierarchy", "toqito.state_opt.state_distinguishability", "toqito.channels.partial_trace / partial_transpose (cvxpy branch)", "toqito.perms.symmetric_projection", "picos + cvxopt, cvxpy + SCS/Clarabel"], "stub": []}
RULE = ("one run = one caller-owned list of 2..4 states on 2x2, 2x3 or 3x2, sometimes with a second list used in between (same shape, another shape, or the same ensemble with the two parties written in the other order) (column kets / density matrices / 1-D vectors where accepted; real and complex; arbitrary prior; or the four Bell kets) reused by 3..6 calls in seeded order: "
        "ppt_distinguishability (party 0 or 1, primal or dual), symmetric_extension_hierarchy (level 1 or 2, dim as list / scalar / omitted), state_distinguishability; "
        "non-trivial = the list holds kets (the form the hierarchy converts) and is used by >=2 operations with the hierarchy not last; distinct = distinct digest of (list, prior, operation sequence)")
SHRINK_ORDER = ["config", "states", "ops", "intr"]


def call_value(fn, res, label):
    return _call_value(fn, res, label, prop="C12")



def _lib():
    from toqito.state_opt import ppt_distinguishability, state_distinguishability, symmetric_extension_hierarchy

    return ppt_distinguishability, symmetric_extension_hierarchy, state_distinguishability


def preload():
    _lib()
    import cvxpy  # noqa: F401
    import picos  # noqa: F401


BELL = [np.array([1, 0, 0, 1]) / np.sqrt(2), np.array([1, 0, 0, -1]) / np.sqrt(2), np.array([0, 1, 1, 0]) / np.sqrt(2), np.array([0, 1, -1, 0]) / np.sqrt(2)]


def draw_states(st, run_index, like=None):
    kind = st.weighted([("kets", 6), ("density", 3), ("vec1d", 1), ("bell", 1)])
    if run_index % 8 == 3:
        kind = "bell"
    elif run_index % 8 == 4:
        kind = "density"
    dims = [[2, 3], [2, 2], [2, 2], [3, 2]][st.draw(4)]
    cplx = bool(st.draw(2))
    if like is not None:
        kind, dims, cplx = ("kets" if like["kind"] == "bell" else like["kind"]), list(like["dims"]), like["complex"]
    rng = st.nprng()
    if kind == "bell":
        dims = [2, 2]
        L = [b.reshape(4, 1).astype(float) for b in BELL]
        probs = [0.25] * 4
        return L, probs, dims, {"kind": "bell", "dims": dims, "n": 4, "complex": False, "prior": "uniform"}
    d = dims[0] * dims[1]
    n = st.int_range(2, 4)
    if like is not None:
        n = like["n"]
    if kind == "kets" and like is None and (st.draw(8) == 0 or run_index % 16 == 5):
        # generalised Bell kets in the computational basis: |psi_{s,m}> = sum_j w^{jm} |j, (j+s) mod d_big> / sqrt(d_small).
        # Mutually orthonormal, all maximally entangled, yet with very regular amplitude patterns - what a
        # "these are orthogonal product states, skip the solver" shortcut with an index slip mistakes for products
        # (square systems hide such slips: the wrong reshape is then just the transpose)
        small, big = min(dims), max(dims)
        labels = [(s_, m_) for s_ in range(big) for m_ in range(small)]
        picked = []
        for _ in range(n):
            picked.append(labels.pop(st.draw(len(labels))))
        L = []
        for s_, m_ in picked:
            v = np.zeros((dims[0], dims[1]), dtype=complex if small > 2 else float)
            for j in range(small):
                amp = np.exp(2j * np.pi * j * m_ / small) if small > 2 else (-1.0) ** (j * m_)
                if dims[0] <= dims[1]:
                    v[j, (j + s_) % big] = amp
                else:
                    v[(j + s_) % big, j] = amp
            v = v.reshape(d, 1) / np.sqrt(small)
            L.append(v)
        probs = [1.0 / n] * n if st.draw(2) else None
        return L, probs, dims, {"kind": "kets", "dims": dims, "n": n, "complex": bool(small > 2), "prior": "uniform" if probs else "default_none", "family": "generalised_bell", "labels": [list(t) for t in picked]}
    L = []
    # a complex ensemble whose arrays do not all have a complex dtype: the first (and some other) states are real
    # arrays, one of them possibly an integer-typed basis state - what the FIRST array looks like says nothing
    # about the ensemble
    mixed = cplx and like is None and st.draw(3) == 0
    ens_cplx = cplx
    for i_state in range(n):
        cplx = ens_cplx and not (mixed and (i_state == 0 or (i_state < n - 1 and st.draw(2))))
        if mixed and not cplx and st.draw(3) == 0:
            e = np.zeros(d, dtype=int)
            e[st.draw(d)] = 1
            L.append(np.outer(e, e) if kind == "density" else (e.reshape(d, 1) if kind == "kets" else e))
            continue
        if kind == "density":
            rank = 1 + st.draw(d)
            g = rng.standard_normal((d, rank)) + (1j * rng.standard_normal((d, rank)) if cplx else 0)
            rho = g @ g.conj().T
            L.append(rho / np.trace(rho).real)
        else:
            skind = st.draw(3)
            if skind == 0:  # product ket
                a = rng.standard_normal(dims[0]) + (1j * rng.standard_normal(dims[0]) if cplx else 0)
                b = rng.standard_normal(dims[1]) + (1j * rng.standard_normal(dims[1]) if cplx else 0)
                v = np.kron(a, b)
            else:
                v = rng.standard_normal(d) + (1j * rng.standard_normal(d) if cplx else 0)
            v = v / np.linalg.norm(v)
            L.append(v.reshape(d, 1) if kind == "kets" else v)
    dominant = None
    if kind == "density" and like is None and st.draw(4) == 0:
        # one nearly white, full-rank state with a large prior next to states with small priors: the weighted
        # smallest eigenvalue of one state can exceed the weighted largest eigenvalue of another
        dominant = st.draw(n)
        eps = [0.02, 0.1, 0.3][st.draw(3)]
        L[dominant] = (1 - eps) * np.eye(d) / d + eps * L[dominant]
    pk = st.weighted([("uniform", 2), ("random", 3), ("default_none", 1), ("with_zero", 1)])
    if dominant is not None:
        pk = "dominant"
        w = rng.random(n) * 0.15 + 0.02
        w[dominant] = 1.0
        probs = list((w / w.sum()).tolist())
        probs[-1] = 1.0 - sum(probs[:-1])
    if pk == "with_zero" and n >= 3:
        # a state that is listed but never prepared: an exact zero in the prior, at any position
        w = rng.random(n) + 0.05
        w[st.draw(n)] = 0.0
        probs = list((w / w.sum()).tolist())
        probs[int(np.argmax(probs))] += 1.0 - sum(probs)
    elif pk == "with_zero":
        pk = "random"
    if pk in ("with_zero", "dominant"):
        pass
    elif pk == "random":
        w = rng.random(n) + 0.05
        probs = list((w / w.sum()).tolist())
        probs[-1] = 1.0 - sum(probs[:-1])
    elif pk == "uniform":
        probs = [1.0 / n] * n
    else:
        probs = None
    cplx = ens_cplx
    meta = {"kind": kind, "dims": dims, "n": n, "complex": cplx, "prior": pk}
    if mixed:
        meta["dtypes"] = [str(np.asarray(a).dtype) for a in L]
    return L, probs, dims, meta


def draw_ops(st, kind, dims, tier):
    n = st.int_range(3, 6)
    ops = []
    for _ in range(n):
        nm = st.weighted([("seh", 5), ("ppt", 5), ("sd", 2)])
        if kind == "vec1d" and nm == "seh":
            nm = "ppt"  # the hierarchy only accepts 2-D arrays
        if nm == "ppt":
            ops.append({"op": "ppt", "party": st.draw(2), "form": st.weighted([("dual", 5), ("primal", 1)])})
        elif nm == "seh":
            lvl = 1 + (st.draw(3) == 2)
            if lvl == 2 and sorted(dims) == [2, 3] and st.draw(3 if tier == "thorough" else 6):
                lvl = 1
            dimform = st.weighted([("list", 3), ("scalar", 2), ("omitted", 2)])
            if dimform == "omitted" and int(np.round(np.sqrt(dims[0] * dims[1]))) != dims[0]:
                dimform = "scalar"  # the default (first dimension = round(sqrt(total))) describes 2x2 and 2x3, not 3x2
            ops.append({"op": "seh", "level": lvl, "dim": dimform})
        else:
            ops.append({"op": "sd"})
    return ops


def op_fn(lib, L, probs, dims, op):
    ppt, seh, sd = lib
    if op["op"] == "ppt":
        return lambda: ppt(L, [op["party"]], dims, probs, primal_dual=op["form"])[0]
    if op["op"] == "seh":
        if op["dim"] == "list":
            return lambda: seh(L, probs, op["level"], list(dims))
        if op["dim"] == "scalar":
            return lambda: seh(L, probs, op["level"], dims[0])
        return lambda: seh(L, probs, op["level"])
    return lambda: sd(L, probs)[0]


def snapshot(L):
    return [(id(x), x.shape, str(x.dtype), x.tobytes()) for x in L]


def list_changed(L, ids, snap):
    if len(L) != len(snap):
        return "length changed %d -> %d" % (len(snap), len(L))
    for i, (x, s) in enumerate(zip(L, snap)):
        if id(x) != s[0]:
            return f"element {i} replaced by another object (shape {getattr(x, 'shape', None)}, was {s[1]})"
        if x.shape != s[1] or str(x.dtype) != s[2]:
            return f"element {i} changed shape/dtype"
        if x.tobytes() != s[3]:
            return f"element {i} changed contents"
    return None


def _pgm(sigmas):
    """Pretty-good measurement for unnormalised operators on a small system (own code): a valid POVM."""
    d = sigmas[0].shape[0]
    tot = sum(sigmas)
    w, v = np.linalg.eigh((tot + tot.conj().T) / 2)
    keep = w > 1e-12 * max(w.max(), 1e-300)
    inv_sqrt = (v[:, keep] / np.sqrt(w[keep])) @ v[:, keep].conj().T
    ms = [inv_sqrt @ sg @ inv_sqrt for sg in sigmas]
    rest = np.eye(d) - v[:, keep] @ v[:, keep].conj().T
    ms[0] = ms[0] + rest  # complete the measurement outside the support
    return ms


def locc_value(L, probs, dims, rng, tries=10):
    """Value achieved by an explicit one-way LOCC (hence separable, hence PPT) measurement: one party measures in
    an orthonormal basis, the other applies the pretty-good measurement of the conditional ensemble belonging to
    the announced outcome.  Both directions and several bases; every value is attained by a valid measurement."""
    rhos = [models.to_dm(x) for x in L]
    n = len(rhos)
    p = probs if probs is not None else [1.0 / n] * n
    da, db = dims
    best = 0.0
    for direction in (0, 1):
        d1, d2 = (da, db) if direction == 0 else (db, da)
        for t in range(tries):
            if t == 0:
                u = np.eye(d1, dtype=complex)
            else:
                u = np.linalg.qr(rng.standard_normal((d1, d1)) + 1j * rng.standard_normal((d1, d1)))[0]
            tot = 0.0
            for i in range(d1):
                a = u[:, i]
                sig = []
                for k in range(n):
                    r4 = rhos[k].reshape(da, db, da, db)
                    if direction == 0:
                        s_k = np.einsum("i,ibjc,j->bc", a.conj(), r4, a)
                    else:
                        s_k = np.einsum("i,bicj,j->bc", a.conj(), r4, a)
                    sig.append(p[k] * s_k)
                if sum(float(np.real(np.trace(x))) for x in sig) < 1e-14:
                    continue
                ms = _pgm(sig)
                tot += sum(float(np.real(np.trace(sg @ m))) for sg, m in zip(sig, ms))
            best = max(best, tot)
    return best


def run(cs, tier, run_index):
    quiet()
    res = RunResult()
    lib = _lib()
    L, probs, dims, meta = draw_states(cs.s("states"), run_index)
    ops = draw_ops(cs.s("ops"), meta["kind"], dims, tier)
    res.probe({"kets": "kets_list", "density": "density_list", "vec1d": "vec1d_list", "bell": "bell_list"}[meta["kind"]])
    if sorted(dims) == [2, 3]:
        res.probe("dims_2x3")
    if dims == [3, 2]:
        res.probe("dims_3x2")
    if meta["complex"]:
        res.probe("complex_states")
    if "dtypes" in meta:
        res.probe("mixed_dtype_ensemble")
    if meta.get("family") == "generalised_bell":
        res.probe("generalised_bell_kets")
    if meta.get("prior") == "dominant":
        res.probe("dominant_white_state")
    if meta["kind"] in ("kets", "density") and len(L) <= 3 and cs.s("config:dup").draw(6) == 0:
        # the caller may list the same array object twice (two equal states with separate priors)
        L.append(L[0])
        if probs is not None:
            probs = [p * (1 - 0.2) for p in probs] + [0.2]
        meta["n"] = len(L)
        meta["duplicate_object"] = True
        res.probe("same_array_object_twice")
    pristine_src = [np.array(x, copy=True) for x in L]
    probs_shadow = None if probs is None else [float(x) for x in probs]
    if probs is not None and cs.s("config:dup").draw(3) == 0:
        probs = np.array(probs)  # callers also keep their prior in an array
        meta["prior_container"] = "ndarray"
    snap = snapshot(L)
    list_id = id(L)

    def fresh():
        return [np.array(x, copy=True) for x in pristine_src]

    # a second caller-owned list of the same shape and different contents, used in between
    L2, dims2 = None, dims
    swapped = False
    if dims[0] != dims[1] and meta["kind"] != "vec1d" and (cs.s("config:two").draw(3) == 1 or run_index % 8 == 6):
        # the same ensemble with the two parties written in the other order (2x3 <-> 3x2): every value must
        # be the same, and anything keyed on the total dimension instead of the split collides
        def swap_parties(x):
            d0, d1 = dims
            if x.ndim == 2 and x.shape[1] == 1:
                return x.reshape(d0, d1).T.reshape(-1, 1).copy()
            return x.reshape(d0, d1, d0, d1).transpose(1, 0, 3, 2).reshape(d0 * d1, d0 * d1).copy()

        L2 = [swap_parties(x) for x in L]
        probs2 = None if probs is None else list(probs)
        dims2 = dims[::-1]
        swapped = True
        res.probe("same_ensemble_parties_swapped")
    elif len(L) >= 2 and (cs.s("config:two").draw(4) == 3 or run_index % 8 == 5):
        # the same ensemble with the states (and their priors) listed in another order: an ensemble is a set
        perm = list(range(len(L)))
        j = 1 + cs.s("config:two").draw(len(L) - 1)
        perm = perm[j:] + perm[:j]
        L2 = [np.array(L[i], copy=True) for i in perm]
        probs2 = None if probs is None else [probs[i] for i in perm]
        swapped = "permuted"
        res.probe("same_ensemble_other_order")
    elif cs.s("config:two").draw(3) == 2 or run_index % 8 == 7:
        same = cs.s("config:two").draw(3) != 0
        L2, probs2, dims2, _ = draw_states(cs.s("states:2"), -1, like=meta if same else None)
        if len(L2[0].shape) == 1 and meta["kind"] != "vec1d":
            L2 = [v.reshape(-1, 1) for v in L2]
        res.probe("two_lists_same_shape" if same else "two_lists_other_shape")
    pristine, vals, names = {}, {}, []
    for k, op in enumerate(ops):
        key = json.dumps(op, sort_keys=True)
        other = None
        if L2 is not None and cs.s("ops:which").draw(2) and not (meta["kind"] == "vec1d" and op["op"] == "seh"):
            op2 = dict(op)
            if swapped is True and op["op"] == "ppt":
                op2["party"] = 1 - op["party"]
            if swapped is True and op["op"] == "seh" and op["dim"] == "omitted":
                op2["dim"] = "list"
            other = call_value(op_fn(lib, L2, probs2, dims2, op2), res, op["op"] + "(other list)")
        maybe_interrupted_call(cs, res, op_fn(lib, L, probs, dims, op))
        out = call_value(op_fn(lib, L, probs, dims, op), res, op["op"] + ("_" + op["form"] if op["op"] == "ppt" else ""))
        names.append(op["op"])
        res.log.add("op", k, key, out[1] if out[0] == "ok" else out[:2])
        # the caller's list (and prior) after the call
        res.checks_sim += 1
        why = list_changed(L, list_id, snap)
        if why:
            if op["op"] == "seh":
                res.violate("C12.alias.list", why=why, after=op, position=k, history=names, **meta)
            else:
                # the property only forbids the hierarchy call from modifying the list; a change made by
                # another routine is recorded, and the history ends here (later values have no reference)
                res.probe("list_modified_by_non_hierarchy_call")
            break
        if out[0] != "ok":
            continue
        v = out[1]
        if swapped and other is not None and other[0] == "ok":
            res.checks_workload += 1
            if abs(other[1] - v) > TAU:
                if swapped == "permuted":
                    res.violate("C12.val.ensemble_order", why="the same ensemble with its states (and priors) listed in another order gives another value", op=op, value=v, other_order=other[1], **meta)
                else:
                    res.violate("C12.val.party", why="the same ensemble with the parties written in the other order gives another value", op=op, value=v, parties_swapped=other[1], **meta)
        if k == 0:
            pristine[key] = v
        else:
            if key not in pristine:
                with pristine_library_state():
                    o2 = call_value(op_fn(lib, fresh(), None if probs_shadow is None else list(probs_shadow), dims, op), res, op["op"] + "(pristine)")
                pristine[key] = o2[1] if o2[0] == "ok" else None
            if pristine[key] is not None:
                res.checks_sim += 1
                if abs(pristine[key] - v) > 1e-5:
                    res.violate("C12.hist.order", op=op, position=k, history=names, after_history=v, pristine=pristine[key], **meta)
        tag = {"ppt": "ppt_%s_%d" % (op.get("form"), op.get("party", 0)), "seh": "se%d" % op.get("level", 0), "sd": "global"}[op["op"]]
        vals.setdefault(tag, []).append(v)
        if op["op"] == "seh" and op["level"] == 2:
            res.probe("level2")
            if sorted(dims) == [2, 3]:
                res.probe("level2_2x3")
        if op["op"] == "ppt" and op["form"] == "primal":
            res.probe("primal_value")

    seh_pos = [i for i, n in enumerate(names) if n == "seh"]
    if seh_pos and seh_pos[0] < len(names) - 1:
        res.probe("hierarchy_not_last")
        if "ppt" in names[seh_pos[0] + 1:]:
            res.probe("hierarchy_then_ppt")

    # ---- workload invariants on the values of this history -------------------
    ppt_all = [v for t, lst in vals.items() if t.startswith("ppt_") for v in lst]
    se1, se2 = vals.get("se1", []), vals.get("se2", [])
    # the global optimum the PPT / hierarchy values are compared with comes from an OWN dual SDP
    # (min Tr Y s.t. Y >= p_i rho_i), not from the library's state_distinguishability: a defect there must not
    # be blamed on the PPT routines
    glob = []
    if ppt_all or se1 or se2:
        rhos_m = [models.to_dm(x) for x in pristine_src]
        p_m = probs_shadow if probs_shadow is not None else [1.0 / len(rhos_m)] * len(rhos_m)
        gm = models.min_error_sdp(list(p_m), rhos_m)
        if gm is not None:
            glob = [gm]
            res.probe("own_global_optimum")
        else:
            res.failed("model:global_sdp")
    rng = cs.s("locc").nprng()
    locc = locc_value(pristine_src, probs_shadow, dims, rng) if (ppt_all or se1 or se2) else None

    def chk(inv, cond, **kw):
        res.checks_workload += 1
        nums = [v for v in kw.values() if isinstance(v, float)]
        if len(nums) == 2 and "_le_" in inv:
            res.margin(inv, (nums[0] - nums[1]) / TAU)
        if not cond:
            res.violate(inv, **kw, **meta)

    if ppt_all:
        if glob:
            chk("C12.ord.ppt_le_global", max(ppt_all) <= min(glob) + TAU, ppt=max(ppt_all), global_opt=min(glob))
        chk("C12.ord.locc_le_ppt", locc <= min(ppt_all) + TAU, locc=locc, ppt=min(ppt_all))
        duals = [v for t, lst in vals.items() if t.startswith("ppt_dual") for v in lst]
        primals = [v for t, lst in vals.items() if t.startswith("ppt_primal") for v in lst]
        if duals and primals:
            chk("C12.val.primal_eq_dual", abs(max(duals) - min(primals)) <= TAU and abs(min(duals) - max(primals)) <= TAU, dual=duals, primal=primals)
        p0 = [v for t, lst in vals.items() if t.startswith("ppt_") and t.endswith("_0") for v in lst]
        p1 = [v for t, lst in vals.items() if t.startswith("ppt_") and t.endswith("_1") for v in lst]
        if p0 and p1:
            chk("C12.val.party", abs(max(p0) - min(p1)) <= TAU and abs(min(p0) - max(p1)) <= TAU, party0=p0, party1=p1)
        if meta["kind"] == "bell":
            chk("C12.val.bell_half", abs(max(ppt_all) - 0.5) <= TAU and abs(min(ppt_all) - 0.5) <= TAU, ppt=ppt_all)
    for lst, nm in ((se1, "se1"), (se2, "se2")):
        if lst:
            chk("C12.ord.locc_le_se", locc <= min(lst) + TAU, locc=locc, level=nm, value=min(lst))
            if glob:
                chk("C12.ord.ppt_le_global", max(lst) <= min(glob) + TAU, why="hierarchy value above the global optimum", level=nm, value=max(lst), global_opt=min(glob))
    if se1 and se2:
        chk("C12.ord.se2_le_se1", max(se2) <= min(se1) + TAU, se2=max(se2), se1=min(se1))
    if se1 and ppt_all:
        chk("C12.val.se1_eq_ppt", abs(max(se1) - min(ppt_all)) <= TAU and abs(min(se1) - max(ppt_all)) <= TAU, se1=se1, ppt=ppt_all)
    if se2 and ppt_all:
        chk("C12.ord.se2_le_se1", max(se2) <= min(ppt_all) + TAU, why="level 2 above the PPT value", se2=max(se2), ppt=min(ppt_all))
    if meta["kind"] == "bell" and se1:
        chk("C12.val.bell_half", abs(se1[0] - 0.5) <= TAU, se1=se1)
    # sparse: invariance under local unitaries (doubles the SDP cost)
    if ppt_all and cs.s("config").draw(4 if tier == "quick" else 3) == 0 or (run_index % 8 == 2 and ppt_all):
        ua = np.linalg.qr(rng.standard_normal((dims[0], dims[0])) + 1j * rng.standard_normal((dims[0], dims[0])))[0]
        ub = np.linalg.qr(rng.standard_normal((dims[1], dims[1])) + 1j * rng.standard_normal((dims[1], dims[1])))[0]
        u = np.kron(ua, ub)
        L2 = [(u @ x if x.ndim == 1 or x.shape[1] == 1 else u @ x @ u.conj().T) for x in pristine_src]
        o = call_value(op_fn(lib, L2, None if probs_shadow is None else list(probs_shadow), dims, {"op": "ppt", "party": 0, "form": "dual"}), res, "ppt_rotated")
        if o[0] == "ok":
            res.probe("local_unitary_checked")
            chk("C12.val.local_unitary", abs(o[1] - ppt_all[0]) <= TAU, rotated=o[1], original=ppt_all[0])

    used = len([n for n in names])
    res.nontrivial = meta["kind"] in ("kets", "bell") and used >= 2 and bool(seh_pos) and seh_pos[0] < len(names) - 1
    if probs is not None and list(probs) != probs_shadow:
        res.probe("prior_object_changed_by_library")
    res.case_key = "%016x" % mix([adigest(x) for x in pristine_src], repr(probs_shadow), json.dumps(ops, sort_keys=True))
    res.sample = {"ensemble": meta, "prior": probs_shadow, "ops": ops, "values": {k: [round(x, 6) for x in v] for k, v in vals.items()}, "locc_achieved": locc}
    return res
