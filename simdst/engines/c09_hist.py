"""C09 engine B9: one ExtendedNonlocalGame object, value methods in any order,
see-saw lower bounds under seeded entropy.

Sim-decided: every lower bound (random unitary start per question, per
iteration) stays below every NPA bound; values do not depend on call order.
Workload invariants: unentangled value = eigenvalue enumeration over answer
functions; unentangled <= NPA <= non-signaling <= 1; referee dimension 1 agrees
with the ordinary nonlocal-game models."""

from __future__ import annotations

import itertools
import json

import numpy as np

from .. import models
from ..core import RunResult, adigest, mix
from ..driver import pristine_library_state
from .hist_common import SAME, TAU, clone, contain, draw_container, quiet, with_entropy
from .hist_common import call_value as _call_value, maybe_interrupted_call

NAME = "B9"
PROPERTY = "C09"
RUNS = {"quick": 320, "thorough": 12000}
RUN_WALL_CAP = 300.0
REQUIRED_PROBES = {"quick": ["other_container", "lower_bound_obtained", "two_lower_bounds_different_entropy", "npa_obtained", "complex_predicate", "asymmetric_game", "needs_question_dependent_answers", "referee_dim_1", "method_repeated", "unequal_counts", "three_questions", "two_objects_same_shape"], "thorough": ["lower_bound_obtained", "two_lower_bounds_different_entropy", "npa_obtained", "npa2_obtained", "complex_predicate", "asymmetric_game", "needs_question_dependent_answers", "referee_dim_1", "referee_dim_3", "method_repeated", "unequal_counts"]}
COMPONENTS = {"real": ["toqito.nonlocal_games.ExtendedNonlocalGame (unentangled_value, quantum_value_lower_bound, commuting_measurement_value_upper_bound, nonsignaling_value)", "toqito.helper.npa_constraints (referee_dim blocks)", "toqito.rand.random_unitary", "cvxpy + SCS/Clarabel"], "stub": ["OS entropy for the see-saw start (numpy.random.bit_generator.randbits -> choice source)"]}
RULE = ("one run = one extended game, sometimes with a second game of the same shape used in between (referee dimension 1..3, 1..2 (rarely 3) answers and 1..3 questions per player, unequal counts, PSD predicate operators of norm <= 1, real and complex, "
        "not symmetric under player exchange, two thirds with referee dimension = Bob's answer count so that the see-saw runs) and 3..6 value-method calls in seeded order, several entropy values per game; "
        "non-trivial = a lower bound was returned, >=2 entropy values were used, and the game is not won with certainty by constant answers; distinct = distinct digest of (game, operations, entropy)")
SHRINK_ORDER = ["config", "game", "ops", "intr"]


def _seesaw_shape_limit(e):
    # the see-saw takes Bob's system to have the referee's dimension and one effect per answer: for games with
    # referee_dim != number of Bob's answers cvxpy rejects the program ("Incompatible dimensions"); a documented
    # limitation of the routine (it refuses, it does not return a wrong number), not judged here
    return isinstance(e, ValueError) and "Incompatible dimensions" in str(e)


def call_value(fn, res, label):
    return _call_value(fn, res, label, prop="C09", allow=_seesaw_shape_limit if label.startswith("lower_bound") else None)



def _mods():
    import toqito.nonlocal_games.extended_nonlocal_game as E
    import toqito.nonlocal_games.nonlocal_game as M

    return E, M


def preload():
    _mods()
    import cvxpy  # noqa: F401
    import scipy.optimize  # noqa: F401


def rand_psd(rng, r, cplx, rank=None):
    g = rng.standard_normal((r, rank or r))
    if cplx:
        g = g + 1j * rng.standard_normal((r, rank or r))
    m = g @ g.conj().T
    n = np.linalg.norm(m, 2)
    return m / n if n > 0 else m


def draw_game(st, tier, like=None):
    mx = 3 if tier == "thorough" else 2
    fam = st.weighted([("seesaw", 8), ("free", 2), ("classical_ref", 2), ("many_functions", 1)])
    a_out, b_out = st.int_range(1, mx), st.int_range(1, mx)
    a_in, b_in = st.weighted([(2, 4), (1, 2), (3, 2)]), st.weighted([(2, 4), (1, 2), (3, 2)])
    if fam == "seesaw":
        b_out = st.weighted([(2, 4), (3, 1)]) if tier == "thorough" else st.weighted([(2, 11), (3, 1)])
        r = b_out
        a_out = max(a_out, 1)
    elif fam == "classical_ref":
        r = 1
        a_out, b_out = max(2, a_out), max(2, b_out)
    else:
        r = st.int_range(1, 3)
    many = None
    if fam == "many_functions":
        # one player has thousands of answer functions (more than one batch of any batched enumeration, and not a
        # multiple of 1024), the other a single question; the optimum is planted at the END of the lexicographic
        # order (highest answer to the first question)
        eo, ei = [(3, 7), (6, 4), (5, 5), (7, 4), (11, 3)][st.draw(5)]
        oo = st.int_range(1, 2)
        r = st.int_range(1, 2)
        many = "bob" if st.draw(3) else "alice"
        if many == "bob":
            a_out, a_in, b_out, b_in = oo, 1, eo, ei
        else:
            a_out, a_in, b_out, b_in = eo, ei, oo, 1
    cplx = bool(st.draw(2)) and r > 1
    if like is not None:
        r, (a_out, b_out), (a_in, b_in), cplx, fam = like["referee_dim"], like["answers"], like["questions"], like["complex"], like["family"]
    rng = st.nprng()
    kind = st.weighted([("random_psd", 3), ("indicator", 3), ("projector", 3), ("scaled", 2), ("pauli_bases", 3 if r == 2 else 0), ("integer_diagonal", 2)])
    if many is not None and like is None:
        kind = "planted_tail"
    if kind == "pauli_bases":
        cplx = True
    dtype = complex if cplx else float
    if kind == "integer_diagonal":
        # 0/1 diagonal projectors typed the way a caller who writes the game down by hand has them: an integer
        # (or bool) array.  The game is the same game as with a float array.
        cplx = False
        dtype = st.choice(["int64", "int64", "int32", "int8", "bool", "float64"])
    pred = np.zeros((r, r, a_out, b_out, a_in, b_in), dtype=dtype)
    if kind == "indicator":
        # V(a,b|x,y) = [a = f(x) and b = g(y)] * P(x,y): only question-dependent answers win everything
        f = rng.integers(0, a_out, size=a_in)
        g = rng.integers(0, b_out, size=b_in)
        for x in range(a_in):
            for y in range(b_in):
                pred[:, :, f[x], g[y], x, y] = np.eye(r) if st.draw(2) == 0 else rand_psd(rng, r, cplx)
    elif kind == "pauli_bases":
        # monogamy-of-entanglement style games in the bases of sigma_x, sigma_y, sigma_z: the referee measures in a
        # basis chosen by the questions and the players win iff both announce the referee's outcome; sigma_y makes
        # the operators genuinely complex (purely imaginary off-diagonal entries)
        vecs = {"z": [np.array([1, 0]), np.array([0, 1])], "x": [np.array([1, 1]) / np.sqrt(2), np.array([1, -1]) / np.sqrt(2)],
                "y": [np.array([1, 1j]) / np.sqrt(2), np.array([1, -1j]) / np.sqrt(2)]}
        names = ["y", "z", "x"]
        for x in range(a_in):
            for y in range(b_in):
                basis = vecs[names[(x + 2 * y + int(rng.integers(0, 3))) % 3]]
                for a in range(a_out):
                    for b in range(b_out):
                        if a == b or a_out == 1 or b_out == 1:
                            v = basis[(a if a_out > 1 else b) % 2]
                            pred[:, :, a, b, x, y] = np.outer(v, v.conj())
    elif kind == "planted_tail":
        f = rng.integers(0, a_out, size=a_in)
        g = rng.integers(0, b_out, size=b_in)
        if many == "bob":
            g[0] = b_out - 1
            if st.draw(2):
                g[1] = b_out - 1
        else:
            f[0] = a_out - 1
            if st.draw(2):
                f[1] = a_out - 1
        for a, b, x, y in itertools.product(range(a_out), range(b_out), range(a_in), range(b_in)):
            pred[:, :, a, b, x, y] = rand_psd(rng, r, cplx) * 0.3 * rng.random()
        for x in range(a_in):
            for y in range(b_in):
                pred[:, :, f[x], g[y], x, y] = np.eye(r)
    elif kind == "integer_diagonal":
        for a, b, x, y in itertools.product(range(a_out), range(b_out), range(a_in), range(b_in)):
            pred[:, :, a, b, x, y] = np.diag(rng.random(r) < 0.5)
    else:
        for a, b, x, y in itertools.product(range(a_out), range(b_out), range(a_in), range(b_in)):
            if kind == "projector":
                m = rand_psd(rng, r, cplx, rank=1)
            elif kind == "scaled":
                m = rand_psd(rng, r, cplx) * rng.random()
            else:
                m = rand_psd(rng, r, cplx)
            if rng.random() < 0.25:
                m = m * 0
            pred[:, :, a, b, x, y] = m
    qk = st.weighted([("uniform", 3), ("dirichlet", 3), ("with_zeros", 1), ("question_never_asked", 2)])
    if qk == "uniform":
        prob = np.full((a_in, b_in), 1.0 / (a_in * b_in))
    else:
        prob = rng.random((a_in, b_in)) ** 2 + 1e-3
        if qk == "with_zeros" and a_in * b_in > 1:
            prob[rng.integers(0, a_in), rng.integers(0, b_in)] = 0.0
        if qk == "question_never_asked":
            # a whole row / column of the distribution is zero: one of a player's questions is never asked
            # (preferably an early one, so that the asked questions are not a prefix of the index range)
            who = st.draw(3)
            if who in (0, 2) and a_in > 1:
                prob[0 if st.draw(3) else int(rng.integers(0, a_in)), :] = 0.0
            if who in (1, 2) and b_in > 1:
                prob[:, 0 if st.draw(3) else int(rng.integers(0, b_in))] = 0.0
            if prob.sum() == 0:
                prob[-1, -1] = 1.0
        prob = prob / prob.sum()
    dup = None
    if like is None and many is None and st.draw(5) == 0 and max(a_in, b_in) >= 2:
        # two of a player's questions carry identical predicate operators while the distribution correlates them
        # with the other player's questions differently: they are still two questions
        dup = "alice" if (a_in >= 2 and (b_in < 2 or st.draw(2))) else "bob"
        if dup == "alice":
            pred[:, :, :, :, 1, :] = pred[:, :, :, :, 0, :]
        else:
            pred[:, :, :, :, :, 1] = pred[:, :, :, :, :, 0]
        prob = rng.random((a_in, b_in)) ** 2 + 1e-2
        prob = prob / prob.sum()
        qk = "correlated"
    meta = {"referee_dim": r, "answers": [a_out, b_out], "questions": [a_in, b_in], "pred_kind": kind, "prob_kind": qk, "complex": cplx, "family": fam, "pred_dtype": str(pred.dtype)}
    if dup:
        meta["duplicate_question"] = dup
    return prob, pred, meta


def unentangled_model(prob, pred):
    r, _, a_out, b_out, a_in, b_in = pred.shape
    best, best_const = -np.inf, -np.inf
    for f in itertools.product(range(a_out), repeat=a_in):
        for g in itertools.product(range(b_out), repeat=b_in):
            m = np.zeros((r, r), dtype=complex)
            for x in range(a_in):
                for y in range(b_in):
                    m += prob[x, y] * pred[:, :, f[x], g[y], x, y]
            v = float(np.linalg.eigvalsh((m + m.conj().T) / 2)[-1])
            best = max(best, v)
            if len(set(f)) <= 1 and len(set(g)) <= 1:
                best_const = max(best_const, v)
    return best, best_const


def op_fn(game, op):
    nm = op["op"]
    if nm == "unentangled":
        return game.unentangled_value
    if nm == "nonsignaling":
        return game.nonsignaling_value
    if nm == "npa1":
        return lambda: game.commuting_measurement_value_upper_bound(1)
    if nm == "npa2":
        return lambda: game.commuting_measurement_value_upper_bound(2)
    if nm == "lower_bound":
        return lambda: game.quantum_value_lower_bound(iters=op["iters"])
    raise KeyError(nm)


def run(cs, tier, run_index):
    quiet()
    res = RunResult()
    E, M = _mods()
    prob, pred, meta = draw_game(cs.s("game"), tier)
    r, _, a_out, b_out, a_in, b_in = pred.shape
    if meta["complex"]:
        res.probe("complex_predicate")
    if meta["family"] == "many_functions":
        res.probe("thousands_of_answer_functions")
    if "duplicate_question" in meta:
        res.probe("duplicate_question")
    if r == 1:
        res.probe("referee_dim_1")
    if r == 3:
        res.probe("referee_dim_3")
    if a_out != b_out or a_in != b_in:
        res.probe("unequal_counts")
    if max(a_in, b_in) >= 3:
        res.probe("three_questions")
    if a_out != b_out or a_in != b_in or not np.allclose(pred, np.transpose(pred, (0, 1, 3, 2, 5, 4))):
        res.probe("asymmetric_game")

    forms = [draw_container(cs.s("config:containers")), draw_container(cs.s("config:containers"))]
    if forms != ["array", "array"]:
        meta["containers"] = forms
        res.probe("other_container")

    def build():
        p, v = contain(prob, forms[0]), contain(pred, forms[1])
        return E.ExtendedNonlocalGame(p, v), (p, v)

    game, caller = build()
    shadow = [np.array(game.prob_mat, copy=True), np.array(game.pred_mat, copy=True)]  # the object right after construction
    caller_shadow = [prob.copy(), pred.copy()]
    # an interloper: a second game of the same shape and different contents whose methods are called in
    # between (anything kept between calls and keyed too coarsely would leak into the main object's values)
    interloper = None
    if cs.s("config").draw(3) == 2 or run_index % 8 == 7:
        p2, v2, _ = draw_game(cs.s("game:2"), tier, like=meta)
        interloper = E.ExtendedNonlocalGame(p2, v2)
        res.probe("two_objects_same_shape")
    un_model, un_const = unentangled_model(prob, pred)
    if un_model > un_const + 1e-6:
        res.probe("needs_question_dependent_answers")

    st = cs.s("ops")
    n_ops = st.int_range(3, 6)
    seesaw_ok = r == b_out
    ops = []
    for _ in range(n_ops):
        nm = st.weighted([("lower_bound", 5), ("npa1", 3), ("unentangled", 2), ("npa2", 2), ("nonsignaling", 2)])
        size1 = r * (1 + (a_out - 1) * a_in + (b_out - 1) * b_in)
        na, nb = (a_out - 1) * a_in, (b_out - 1) * b_in
        size2 = r * (1 + na + nb + na * nb + na * na + nb * nb)
        if nm == "npa2" and size2 > (90 if tier == "thorough" else 40):
            nm = "npa1"
        if nm == "npa1" and size1 > 60:
            nm = "unentangled"
        op = {"op": nm}
        if nm == "lower_bound":
            if not seesaw_ok and st.draw(4):
                op = {"op": "npa1"}  # the see-saw cannot run here; try it only occasionally
            else:
                op["entropy"] = st.draw(1 << 20) + 1
                op["iters"] = 1 + (st.draw(4) == 3)
        ops.append(op)

    if st.draw(2) or meta["family"] == "many_functions":
        ops.insert(st.draw(len(ops) + 1), {"op": "unentangled"})  # cheap on both sides: compared with the enumeration model
    pristine, vals, names, ents = {}, {}, [], set()
    for k, op in enumerate(ops):
        key = json.dumps(op, sort_keys=True)
        ent = op.get("entropy", 0)
        if interloper is not None and st.draw(2):
            with with_entropy(ent + 17):
                call_value(op_fn(interloper, op), res, op["op"] + "(other object)")
        if st.draw(8) == 0:
            # the caller continues with a copy of the object (deep copy / pickle round trip / shallow copy)
            how_c = st.draw(3)
            try:
                game = clone(game, how_c)
            except Exception as e:
                res.violate("C09.op.raises", op=["deepcopy", "pickle", "copy"][how_c], exc=type(e).__name__, msg=str(e)[:200], position=k, **meta)
                break
            res.probe("object_cloned")
        with with_entropy(ent):
            maybe_interrupted_call(cs, res, op_fn(game, op))
        with with_entropy(ent):
            out = call_value(op_fn(game, op), res, op["op"])
        names.append(op["op"])
        res.log.add("op", k, key, out[1] if out[0] == "ok" else out[:2])
        res.checks_sim += 1
        if not (_same(game.prob_mat, shadow[0]) and _same(game.pred_mat, shadow[1]) and _same(caller[0], caller_shadow[0]) and _same(caller[1], caller_shadow[1])):
            res.violate("C09.hist.order", why="game object or caller arrays changed", after=op["op"], position=k, history=names, **meta)
            break
        if out[0] != "ok":
            continue
        v = out[1]
        if k == 0:
            pristine[key] = v
        else:
            if key not in pristine:
                with pristine_library_state():
                    g2, _ = build()
                    with with_entropy(ent):
                        o2 = call_value(op_fn(g2, op), res, op["op"] + "(pristine)")
                pristine[key] = o2[1] if o2[0] == "ok" else None
            if pristine[key] is not None:
                res.checks_sim += 1
                if abs(pristine[key] - v) > SAME:
                    res.violate("C09.hist.order", op=op["op"], position=k, history=names, after_history=v, pristine=pristine[key], **meta)
        vals.setdefault(op["op"], []).append(v)
        if op["op"] == "lower_bound":
            ents.add(ent)
        if op["op"] == "unentangled":
            res.checks_workload += 1
            if abs(v - un_model) > 1e-6:
                res.violate("C09.val.unentangled", got=v, expected=un_model, best_constant_answers=un_const, **meta)

    # parameter sweep: the caller refills ITS arrays in place with the next game's numbers and builds a new object
    # from the same array objects (own streams; the values of the next game are judged by the model of the next game)
    sw = cs.s("sweep")
    if sw.draw(2) == 0 and not res.violations and a_out**a_in * b_out**b_in <= 600:
        try:
            p_arr, v_arr = build()[1]
            # the caller's work buffers are its own: `contain` may hand back the generated array itself (a 1 x n array is
            # already Fortran-contiguous), and the refill below must never reach the data the reference models read
            p_arr, v_arr = p_arr.copy(), v_arr.copy()
            g1 = E.ExtendedNonlocalGame(p_arr, v_arr)
            o1 = call_value(g1.unentangled_value, res, "unentangled(sweep step 0)")
            prob2, pred2, meta2 = draw_game(cs.s("game:sweep"), tier, like=meta)
            if np.shape(pred2) == np.shape(v_arr) and np.can_cast(pred2.dtype, v_arr.dtype, "same_kind") and np.shape(prob2) == np.shape(p_arr):
                p_arr[...] = prob2
                v_arr[...] = pred2
                g2 = E.ExtendedNonlocalGame(p_arr, v_arr)
                un2, _ = unentangled_model(np.asarray(p_arr), np.asarray(v_arr))
                res.probe("sweep_in_place_refill")
                for which, gg in (("new object", g2), ("old object", g1)):
                    o2 = call_value(gg.unentangled_value, res, "unentangled(sweep step 1, %s)" % which)
                    res.checks_sim += 1
                    # the old object holds the same arrays (the constructor keeps references), so it now describes the new game too
                    holds_same = gg is g2 or (getattr(gg, "prob_mat", None) is p_arr and getattr(gg, "pred_mat", None) is v_arr)
                    if o2[0] == "ok" and holds_same and abs(o2[1] - un2) > 1e-6:
                        res.violate("C09.val.unentangled", got=o2[1], expected=un2, history="the caller refilled its arrays in place with another game and asked the %s" % which, value_before_refill=o1[1] if o1[0] == "ok" else None, **meta)
                        break
        except MemoryError:
            raise

    vals.setdefault("unentangled_model", []).append(un_model)
    # orderings
    for lo, inv in (("lower_bound", "lb_le_npa"), ("unentangled", "un_le_npa"), ("unentangled_model", "un_le_npa")):
        for hi in ("npa1", "npa2"):
            if lo in vals and hi in vals:
                if lo == "lower_bound":
                    res.checks_sim += 1
                else:
                    res.checks_workload += 1
                res.margin(inv, (max(vals[lo]) - min(vals[hi])) / TAU)
                if max(vals[lo]) > min(vals[hi]) + TAU:
                    res.violate(f"C09.ord.{inv}", lower_name=lo, lower=max(vals[lo]), upper_name=hi, upper=min(vals[hi]), **meta)
    if "nonsignaling" in vals:
        for lo in ("npa1", "npa2", "lower_bound", "unentangled", "unentangled_model"):
            if lo in vals:
                res.checks_workload += 1
                res.margin("npa_le_ns", (max(vals[lo]) - min(vals["nonsignaling"])) / TAU)
                if max(vals[lo]) > min(vals["nonsignaling"]) + TAU:
                    res.violate("C09.ord.npa_le_ns", lower_name=lo, lower=max(vals[lo]), nonsignaling=min(vals["nonsignaling"]), **meta)
        res.checks_workload += 1
        if max(vals["nonsignaling"]) > 1 + TAU:
            res.violate("C09.ord.ns_le_1", nonsignaling=max(vals["nonsignaling"]), **meta)
    # referee dimension 1: an ordinary nonlocal game -- the C07 models apply
    if r == 1 and not meta["complex"]:
        p4 = np.real(pred[0, 0])
        cl = models.classical_value_bf(prob, p4)
        res.checks_workload += 1
        if abs(cl - un_model) > 1e-9:
            raise AssertionError("reference models disagree (unentangled vs classical)")
        if "nonsignaling" in vals:
            lp = models.nonsignaling_value_lp(prob, p4)
            if lp is not None:
                res.checks_workload += 1
                if abs(max(vals["nonsignaling"]) - lp) > TAU:
                    res.violate("C09.ord.npa_le_ns", why="referee dimension 1: non-signaling value differs from the LP value", got=max(vals["nonsignaling"]), expected=lp, **meta)
    if "lower_bound" in vals:
        res.probe("lower_bound_obtained")
    if len(ents) >= 2:
        res.probe("two_lower_bounds_different_entropy")
    if "npa1" in vals or "npa2" in vals:
        res.probe("npa_obtained")
    if "npa2" in vals:
        res.probe("npa2_obtained")
    if len(names) > len(set(names)):
        res.probe("method_repeated")
    res.nontrivial = "lower_bound" in vals and len(ents) >= 2 and un_const < 1 - 1e-6
    res.case_key = "%016x" % mix(adigest(prob), adigest(pred), json.dumps(ops, sort_keys=True))
    res.sample = {"game": meta, "ops": ops, "values": {k: [round(x, 6) for x in v] for k, v in vals.items()}}
    return res


def _same(a, b):
    a = np.asarray(a)
    return a.shape == b.shape and a.dtype == b.dtype and a.tobytes() == b.tobytes()
