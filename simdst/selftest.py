"""Self-tests of the machinery: determinism and sensitivity (mutants)."""

from __future__ import annotations

import json
import os
import shutil
import subprocess
import sys
import tempfile
import time

from . import driver
from .check import ENGINES
from .driver import VERIF

ALL_ENGINES = [m for ms in ENGINES.values() for m in ms]


def _engine_by_name(name):
    for m in ALL_ENGINES:
        if m.endswith(name) or m == name:
            return m
    raise SystemExit("unknown engine " + name)


def print_digests(engine_mod, start, n):
    """Print `run_index digest case_key violations` for runs [start, start+n), computed
    through the same Farm the checks use (VERIF_JOBS workers)."""
    modname = _engine_by_name(engine_mod)
    engine = driver._load_engine(modname)
    seed = int(os.environ.get("VERIF_SEED", "0") or 0)
    jobs = max(1, int(os.environ.get("VERIF_JOBS", "0") or (os.cpu_count() or 4)))
    tier = os.environ.get("VERIF_TIER", "quick")
    rows = {}

    def on(o):
        if not o.get("ok"):
            rows[o["run_index"]] = "HARNESS-ERROR " + (o.get("error") or "")[-300:].replace("\n", " | ")
        elif o.get("timeout"):
            rows[o["run_index"]] = "TIMEOUT"
        else:
            rows[o["run_index"]] = "%s %s %s" % (o["digest"], o["case_key"], json.dumps(sorted(set(v[0] for v in o["violations"]))))

    farm = driver.Farm(modname, tier, seed, jobs, engine.RUN_WALL_CAP)
    try:
        farm.run_all(range(start, start + n), on, float("inf"))
    finally:
        farm.close()
    for i in sorted(rows):
        print(i, rows[i])


def determinism(n_seeds, engines):
    """Each engine: the same run indices in fresh interpreters under two
    PYTHONHASHSEED values and 1 / many worker processes; event-log digests must agree."""
    mods = [_engine_by_name(e) for e in engines] if engines else ALL_ENGINES
    cli = os.path.join(VERIF, "simdst", "cli.py")
    bad = 0
    for m in mods:
        engine = driver._load_engine(m)
        n = min(n_seeds, getattr(engine, "DETERMINISM_RUNS", n_seeds))
        outs = []
        cfgs = [("0", "16"), ("4242", "16"), ("0", "3"), ("4242", "1")]
        procs = []
        for hs, jobs in cfgs:
            env = dict(os.environ)
            env.update({"VERIF_HASHSEED": hs, "VERIF_JOBS": jobs})
            env.pop("SIMDST_REEXEC", None)
            nn = n if jobs != "1" else max(8, n // 8)
            procs.append((hs, jobs, nn, subprocess.Popen([sys.executable, cli, "digests", m, "--n", str(nn)], env=env, stdout=subprocess.PIPE, stderr=subprocess.PIPE, text=True)))
        for hs, jobs, nn, p in procs:
            o, e = p.communicate(timeout=3600)
            outs.append((hs, jobs, nn, o.strip().splitlines(), e))
        base = outs[0][3]
        ok = True
        for hs, jobs, nn, lines, err in outs[1:]:
            if lines[:nn] != base[:nn] or len(lines) < nn:
                ok = False
                diff = [(a, b) for a, b in zip(base, lines) if a != b][:3]
                print(f"DETERMINISM-FAIL engine={engine.NAME} hashseed={hs} jobs={jobs}: first differences {diff} stderr={err[-300:]}")
        bads = [l for l in base if "HARNESS-ERROR" in l]
        if bads:
            ok = False
            print(f"DETERMINISM-FAIL engine={engine.NAME}: harness errors {bads[:2]}")
        print(f"determinism engine={engine.NAME} ({m}) runs={n} configs={cfgs} -> {'OK' if ok else 'FAIL'}")
        bad += 0 if ok else 1
    return 0 if bad == 0 else 2


# ----------------------------------------------------------------------------
# sensitivity: mutants applied to a scratch copy of the repository
# ----------------------------------------------------------------------------

def mutants(only, tier):
    """Apply each patch of /verif/mutants/*.diff and /verif/seeded/*/patch.diff to
    a scratch copy of /repo (fresh mktemp dir, removed afterwards), point the
    check at it and require exit 1."""
    cat = []
    mdir = os.path.join(VERIF, "mutants")
    if os.path.isdir(mdir):
        for f in sorted(os.listdir(mdir)):
            if f.endswith(".diff"):
                meta = {}
                mp_ = os.path.join(mdir, f[:-5] + ".json")
                if os.path.exists(mp_):
                    meta = json.load(open(mp_))
                cat.append((f[:-5], os.path.join(mdir, f), meta))
    sdir = os.path.join(VERIF, "seeded")
    if os.path.isdir(sdir):
        for d in sorted(os.listdir(sdir)):
            pth = os.path.join(sdir, d, "patch.diff")
            if os.path.exists(pth):
                meta = {}
                if os.path.exists(os.path.join(sdir, d, "meta.json")):
                    meta = json.load(open(os.path.join(sdir, d, "meta.json")))
                cat.append(("seeded/" + d, pth, meta))
    if only:
        cat = [c for c in cat if any(o in c[0] for o in only)]
    results = []
    cli = os.path.join(VERIF, "simdst", "cli.py")
    for name, patch, meta in cat:
        if meta.get("obsolete"):
            print(f"mutant {name}: marked obsolete ({meta.get('obsolete_reason', '')[:120]}...), skipped")
            continue
        props = meta.get("properties") or ([meta["property"]] if "property" in meta else [])
        if not props:
            print(f"mutant {name}: no property in meta, skipped")
            continue
        tmp = tempfile.mkdtemp(prefix="simdst-mut-")
        try:
            subprocess.run(["git", "-C", "/repo", "worktree", "add", "--detach", "-f", os.path.join(tmp, "repo")], check=True, capture_output=True)
            scratch = os.path.join(tmp, "repo")
            ap = subprocess.run(["git", "-C", scratch, "apply", patch], capture_output=True, text=True)
            if ap.returncode != 0:
                print(f"mutant {name}: patch does not apply: {ap.stderr[-300:]}")
                results.append((name, "patch-failed"))
                continue
            for prop in props:
                env = dict(os.environ)
                env["VERIF_REPO"] = scratch
                env["VERIF_OUT"] = tmp
                t0 = time.time()
                p = subprocess.run([sys.executable, cli, "check", prop, "--tier", tier], env=env, capture_output=True, text=True)
                viol = [l for l in p.stdout.splitlines() if l.startswith("VIOLATION")]
                status = "caught" if (p.returncode == 1 and viol) else f"MISSED(rc={p.returncode})"
                print(f"mutant {name} property={prop}: {status} in {time.time() - t0:.1f}s {viol[:1]}")
                results.append((name + ":" + prop, status))
        finally:
            subprocess.run(["git", "-C", "/repo", "worktree", "remove", "--force", os.path.join(tmp, "repo")], capture_output=True)
            shutil.rmtree(tmp, ignore_errors=True)
            subprocess.run(["git", "-C", "/repo", "worktree", "prune"], capture_output=True)
    missed = [r for r in results if r[1] != "caught"]
    print(f"mutants: {len(results) - len(missed)}/{len(results)} caught")
    return 0 if not missed else 2
