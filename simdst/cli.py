"""Entry point: `sim check <id> --tier quick|thorough`, `sim replay <file>`, self-tests."""

import argparse
import os
import sys


def _reexec_env():
    """Pin the interpreter-level sources of nondeterminism, then re-exec once."""
    want = {"PYTHONHASHSEED": os.environ.get("VERIF_HASHSEED", "0"), "OMP_NUM_THREADS": "1", "OPENBLAS_NUM_THREADS": "1", "MKL_NUM_THREADS": "1", "PYTHONDONTWRITEBYTECODE": "1"}
    if os.environ.get("SIMDST_REEXEC") == "1" and all(os.environ.get(k) == v for k, v in want.items()):
        return
    env = dict(os.environ)
    env.update(want)
    env["SIMDST_REEXEC"] = "1"
    os.execve(sys.executable, [sys.executable] + sys.argv, env)


def _paths():
    here = os.path.dirname(os.path.dirname(os.path.abspath(__file__)))
    if here not in sys.path:
        sys.path.insert(0, here)
    repo = os.environ.get("VERIF_REPO", "/repo")
    repo = os.path.abspath(repo)
    os.environ["VERIF_REPO"] = repo
    # toqito is a namespace package: make sure exactly one portion is visible
    sys.path[:] = [p for p in sys.path if os.path.abspath(p or ".") != "/repo" or repo == "/repo"]
    if repo in sys.path:
        sys.path.remove(repo)
    sys.path.insert(1, repo)


def main(argv=None):
    _reexec_env()
    _paths()
    ap = argparse.ArgumentParser(prog="sim")
    sub = ap.add_subparsers(dest="cmd", required=True)
    c = sub.add_parser("check")
    c.add_argument("property")
    c.add_argument("--tier", choices=["quick", "thorough"], default=None)
    c.add_argument("--engine", default=None)
    c.add_argument("--runs", type=int, default=None)
    r = sub.add_parser("replay")
    r.add_argument("path")
    r.add_argument("--quiet", action="store_true")
    d = sub.add_parser("selftest-determinism")
    d.add_argument("--seeds", type=int, default=200)
    d.add_argument("--engines", default="")
    m = sub.add_parser("selftest-mutants")
    m.add_argument("--only", default="")
    m.add_argument("--tier", default="quick")
    g = sub.add_parser("digests")
    g.add_argument("engine")
    g.add_argument("--n", type=int, default=50)
    g.add_argument("--start", type=int, default=0)
    args = ap.parse_args(argv)

    import faulthandler

    faulthandler.enable()
    if args.cmd == "check":
        from simdst import check

        tier = args.tier or os.environ.get("VERIF_TIER") or "quick"
        if tier not in ("quick", "thorough"):
            tier = "quick"
        seed = int(os.environ.get("VERIF_SEED", "0") or 0)
        rc = check.check(args.property, tier, seed, only_engine=args.engine, runs_override=args.runs)
        sys.stdout.flush()
        sys.exit(rc)
    if args.cmd == "replay":
        from simdst import driver
        import json

        ok, msg = driver.replay_file(args.path)
        doc = json.load(open(args.path))
        if ok:
            print(msg)
            print(f"VIOLATION property={doc['property']} replay={args.path}")
            sys.exit(1)
        print("replay did not reproduce: " + msg)
        sys.exit(0 if "not violated" in msg else 2)
    if args.cmd == "selftest-determinism":
        from simdst import selftest

        sys.exit(selftest.determinism(args.seeds, [e for e in args.engines.split(",") if e]))
    if args.cmd == "selftest-mutants":
        from simdst import selftest

        sys.exit(selftest.mutants([m for m in args.only.split(",") if m], args.tier))
    if args.cmd == "digests":
        from simdst import selftest

        selftest.print_digests(args.engine, args.start, args.n)
        sys.exit(0)


if __name__ == "__main__":
    main()
