"""SimPool: an in-process, discrete-event stand-in for multiprocessing.Pool
(CPython 3.12 semantics), driven by the choice source.

* tasks are cut into chunks exactly as CPython does; every chunk crosses the
  "process boundary" by a real pickle round trip of (func, batch) -- one copy of
  the arguments per chunk, shared by the tasks inside it -- and results come
  back through pickle as well;
* every simulated worker owns a fork-time snapshot of the module-level data of
  the watched modules and of the data attributes of the watched classes; it is
  swapped in while that worker executes and writes stay in it (the parent never
  sees worker writes);
* idle workers take queued chunks FIFO; which idle worker, how long a chunk
  takes (jitter, stalls) and hence the completion order are draws from the
  stream; ordered APIs reassemble by index, unordered APIs yield in completion
  order;
* worker code runs inline in the simulator thread: one run is one deterministic
  sequence of events.  Simulated time is measured in task-cost units.
"""

from __future__ import annotations

import copy
import heapq
import itertools
import multiprocessing as _real_mp
import pickle
import types

CPU_CHOICES = [4, 1, 2, 3, 8, 16, 32, 61]


class InjectedWorkerFault(MemoryError):
    pass


class PoolSim:
    """Per-run state shared by all pools created during the run."""

    def __init__(self, stream, res, watch_modules=(), watch_classes=(), fault=None):
        self.stream = stream
        self.res = res
        self.watch_modules = list(watch_modules)
        self.watch_classes = list(watch_classes)
        self.cpu_count = CPU_CHOICES[stream.draw(len(CPU_CHOICES))]
        self.stall_permille = [0, 50, 300][stream.draw(3)]
        self.jitter = [0, 200, 900][stream.draw(3)]
        self.fault = fault  # None or {"chunk": c, "task": t}
        self.now = 0.0
        self.seq = 0
        self.pools = 0
        self.chunks = 0
        self.tasks_run = {}
        self.workers_used = set()
        self.max_workers = 0
        self.bypassed = 0
        self.completion_order = []
        self.worker_writes = 0

    # -- module façade -------------------------------------------------------
    def module(self):
        return _MPFacade(self)

    # -- snapshots -----------------------------------------------------------
    def snapshot(self):
        snap = {}
        for m in self.watch_modules:
            d = {}
            for k, v in vars(m).items():
                if k.startswith("__") or isinstance(v, (types.ModuleType, types.FunctionType, type, types.BuiltinFunctionType)) or isinstance(v, _MPFacade):
                    continue
                try:
                    d[k] = copy.deepcopy(v)
                except Exception:
                    continue
            snap[("m", m.__name__)] = d
        for c in self.watch_classes:
            d = {}
            for k, v in vars(c).items():
                if k.startswith("__") or callable(v) or isinstance(v, (classmethod, staticmethod, property)):
                    continue
                try:
                    d[k] = copy.deepcopy(v)
                except Exception:
                    continue
            snap[("c", c.__module__ + "." + c.__qualname__)] = d
        return snap

    def _targets(self):
        for m in self.watch_modules:
            yield ("m", m.__name__), m
        for c in self.watch_classes:
            yield ("c", c.__module__ + "." + c.__qualname__), c

    def swap_in(self, snap):
        """Install a worker's view; return what is needed to restore the parent's."""
        saved = {}
        for key, obj in self._targets():
            cur = {}
            view = snap.get(key, {})
            # data the parent created after this worker was forked is invisible to it
            for k in self._data_names(obj):
                if k not in view:
                    cur[k] = getattr(obj, k)
                    try:
                        delattr(obj, k)
                        self.res.probe("post_fork_parent_state_hidden")
                    except Exception:
                        cur.pop(k)
            for k in list(view):
                if k in cur:
                    pass
                elif hasattr(obj, k):
                    cur[k] = getattr(obj, k)
                else:
                    cur[k] = _MISSING
                setattr(obj, k, view[k])
            saved[key] = (cur, set(self._data_names(obj)))
        return saved

    def swap_out(self, snap, saved):
        """Read the worker's writes back into its snapshot, restore the parent's view."""
        for key, obj in self._targets():
            cur, names_before = saved[key]
            view = snap.setdefault(key, {})
            names_now = set(self._data_names(obj))
            for k in names_now:
                v = getattr(obj, k)
                if k in view:
                    if v is not view[k]:
                        self.worker_writes += 1
                    view[k] = v
                elif k not in names_before:
                    view[k] = v  # created by the worker: lives in the worker only
                    self.worker_writes += 1
            for k in names_now - names_before:
                try:
                    delattr(obj, k)
                except Exception:
                    pass
            for k, v in cur.items():
                if v is _MISSING:
                    if hasattr(obj, k):
                        try:
                            delattr(obj, k)
                        except Exception:
                            pass
                else:
                    setattr(obj, k, v)

    @staticmethod
    def _data_names(obj):
        out = []
        for k, v in vars(obj).items():
            if k.startswith("__"):
                continue
            if isinstance(obj, types.ModuleType):
                if isinstance(v, (types.ModuleType, types.FunctionType, type, types.BuiltinFunctionType, _MPFacade)):
                    continue
            else:
                if callable(v) or isinstance(v, (classmethod, staticmethod, property)):
                    continue
            out.append(k)
        return out


_MISSING = object()


class _MPFacade:
    """What the library sees as the `multiprocessing` module."""

    def __init__(self, sim):
        self._sim = sim

    def Pool(self, processes=None, initializer=None, initargs=(), maxtasksperchild=None, context=None):
        return SimPool(self._sim, processes, initializer, initargs, maxtasksperchild)

    def cpu_count(self):
        return self._sim.cpu_count

    def get_context(self, method=None):
        return self

    def get_start_method(self, allow_none=False):
        return "fork"

    def __getattr__(self, name):
        self._sim.bypassed += 1
        self._sim.res.probe("stub_bypassed:" + name)
        return getattr(_real_mp, name)


class _Worker:
    __slots__ = ("wid", "snap", "free_at", "done_chunks", "initialised")

    def __init__(self, wid, snap):
        self.wid = wid
        self.snap = snap
        self.free_at = 0.0
        self.done_chunks = 0
        self.initialised = False


TIME_UNIT = 1e-3  # one task costs one simulated millisecond (a stalled chunk: 1000 times more)


class _AsyncResult:
    def __init__(self, pool, job):
        self._pool = pool
        self._job = job

    def ready(self):
        # polling advances the simulation by one event, otherwise `while not r.ready()` would never end
        if not self._job["done"]:
            self._pool._step()
        return self._job["done"]

    def successful(self):
        if not self._job["done"]:
            raise ValueError("not ready")
        return self._job["error"] is None

    def wait(self, timeout=None):
        self._pool._drive(self._job, timeout)

    def get(self, timeout=None):
        self._pool._drive(self._job, timeout)
        if not self._job["done"]:
            self._pool.sim.res.fault("result_timeout")
            raise _real_mp.TimeoutError
        if self._job["error"] is not None:
            raise self._job["error"]
        return self._unwrap(self._job["value"])

    def _unwrap(self, v):
        return v


class SimPool:
    def __init__(self, sim, processes=None, initializer=None, initargs=(), maxtasksperchild=None):
        if processes is None:
            processes = sim.cpu_count
        if processes < 1:
            raise ValueError("Number of processes must be at least 1")
        if maxtasksperchild is not None and (not isinstance(maxtasksperchild, int) or maxtasksperchild <= 0):
            raise ValueError("maxtasksperchild must be a positive int or None")
        self.sim = sim
        sim.pools += 1
        self.n = processes
        sim.max_workers = max(sim.max_workers, processes)
        self.initializer, self.initargs = initializer, initargs
        self.maxtasks = maxtasksperchild
        self.state = "RUN"
        self._wid = itertools.count()
        self.workers = [_Worker(next(self._wid), sim.snapshot()) for _ in range(processes)]  # fork-time snapshots
        self.queue = []  # pending chunks (FIFO)
        self.heap = []  # (finish time, seq, worker, chunk)
        self.jobs = []

    # -- context manager -----------------------------------------------------
    def __enter__(self):
        self._check_running()
        return self

    def __exit__(self, *a):
        self.terminate()

    def _check_running(self):
        if self.state != "RUN":
            raise ValueError("Pool not running")

    def close(self):
        if self.state == "RUN":
            self.state = "CLOSE"

    def terminate(self):
        self.state = "TERMINATE"
        self.queue.clear()
        self.heap.clear()

    def join(self):
        if self.state == "RUN":
            raise ValueError("Pool is still running")
        for j in self.jobs:
            if not j["done"] and self.state == "CLOSE":
                self._drive(j)
        self.state = "JOINED"

    # -- job creation --------------------------------------------------------
    def _chunks(self, func, iterable, chunksize, star):
        if not hasattr(iterable, "__len__"):
            iterable = list(iterable)
        if chunksize is None:
            chunksize, extra = divmod(len(iterable), self.n * 4)
            if extra:
                chunksize += 1
        if len(iterable) == 0:
            chunksize = 0
        if chunksize < 1 and len(iterable):
            raise ValueError("Chunksize must be 1+, not {0:n}".format(chunksize))
        it = iter(iterable)
        out = []
        while True:
            batch = tuple(itertools.islice(it, chunksize)) if chunksize else ()
            if not batch:
                break
            out.append(batch)
        return out, chunksize

    def _lazy_batches(self, iterable, chunksize):
        """imap / imap_unordered: CPython's task handler pulls the iterable lazily, one chunk at a time, and
        pickles each chunk as soon as it has been collected (tasks of one chunk that alias a mutable object see
        its state at that moment; different chunks do not alias)."""
        it = iter(iterable)
        while True:
            batch = tuple(itertools.islice(it, chunksize))
            if not batch:
                return
            yield batch

    def _submit(self, func, iterable, chunksize, star, kind="map"):
        self._check_running()
        if kind in ("imap", "imap_unordered"):
            if chunksize < 1:
                raise ValueError("Chunksize must be 1+, not {0!r}".format(chunksize))
            self.sim.seq += 1
            job = {"id": self.sim.seq, "n": 0, "results": [], "left": 0, "done": False, "error": None, "value": None, "order": [], "kind": kind}
            self.jobs.append(job)
            for i, b in enumerate(self._lazy_batches(iterable, chunksize)):
                payload = pickle.dumps((func, b, star), protocol=pickle.HIGHEST_PROTOCOL)
                self.sim.chunks += 1
                job["results"].append(None)
                job["n"] += 1
                job["left"] += 1
                self.queue.append({"job": job, "index": i, "payload": payload, "ntasks": len(b), "gidx": self.sim.chunks - 1})
            if job["n"] == 0:
                job["done"], job["value"] = True, []
            self.sim.res.probe("pool_chunks", job["n"])
            return job
        batches, chunksize = self._chunks(func, iterable, chunksize, star)
        self.sim.seq += 1
        job = {"id": self.sim.seq, "n": len(batches), "results": [None] * len(batches), "left": len(batches), "done": len(batches) == 0, "error": None, "value": [] if not batches else None, "order": [], "kind": kind}
        self.jobs.append(job)
        for i, b in enumerate(batches):
            # the task crosses the process boundary here: one pickle per chunk
            payload = pickle.dumps((func, b, star), protocol=pickle.HIGHEST_PROTOCOL)
            self.sim.chunks += 1
            self.queue.append({"job": job, "index": i, "payload": payload, "ntasks": len(b), "gidx": self.sim.chunks - 1})
        self.sim.res.probe("pool_chunks", len(batches))
        return job

    # -- the event loop ------------------------------------------------------
    def _dispatch(self):
        sim = self.sim
        while self.queue:
            idle = [w for w in self.workers if w.free_at <= sim.now and not any(h[2] is w for h in self.heap)]
            if not idle:
                break
            w = idle[sim.stream.draw(len(idle))]
            chunk = self.queue.pop(0)
            cost = 0.0
            for _ in range(chunk["ntasks"]):
                cost += 1.0
            if sim.jitter:
                cost *= 1.0 + sim.stream.draw(sim.jitter + 1) / 1000.0 * 3.0
            if sim.stall_permille and sim.stream.draw(1000) >= 1000 - sim.stall_permille:
                cost *= 1000.0
                sim.res.fault("worker_stall")
            sim.seq += 1
            heapq.heappush(self.heap, (sim.now + cost, sim.seq, w, chunk))

    def _step(self):
        """Process the next completion event, if any."""
        sim = self.sim
        if self.state == "TERMINATE":
            return False
        self._dispatch()
        if not self.heap:
            return False
        t, _, w, chunk = heapq.heappop(self.heap)
        sim.now = max(sim.now, t)
        self._execute(w, chunk)
        return True

    def _drive(self, job, timeout=None):
        """Advance simulated time until `job` is complete (or failed), or until the timeout (seconds of
        simulated time, TIME_UNIT per task) has passed."""
        sim = self.sim
        deadline = None if timeout is None else sim.now + float(timeout) / TIME_UNIT
        while not job["done"]:
            if self.state == "TERMINATE":
                raise RuntimeError("simulated pool terminated with a job outstanding")
            self._dispatch()
            if not self.heap:
                raise RuntimeError("simulated pool deadlock: job outstanding, nothing scheduled")
            if deadline is not None and self.heap[0][0] > deadline:
                sim.now = deadline
                return job
            self._step()
        return job

    def _execute(self, w, chunk):
        sim = self.sim
        sim.workers_used.add(w.wid)
        saved = sim.swap_in(w.snap)
        ok, value = True, None
        try:
            if not w.initialised:
                w.initialised = True
                if self.initializer is not None:
                    self.initializer(*self.initargs)
            func, batch, star = pickle.loads(chunk["payload"])
            out = []
            for ti, args in enumerate(batch):
                key = (chunk["job"]["id"], chunk["index"], ti)
                sim.tasks_run[key] = sim.tasks_run.get(key, 0) + 1
                if sim.fault is not None and sim.fault["chunk"] == chunk["gidx"] and sim.fault["task"] == ti:
                    sim.res.fault("worker_memoryerror")
                    raise InjectedWorkerFault("injected: worker out of memory")
                out.append(func(*args) if star else func(args))
            value = pickle.loads(pickle.dumps(out, protocol=pickle.HIGHEST_PROTOCOL))
        except BaseException as e:  # as the real worker: the chunk's result is the exception
            ok, value = False, e
        finally:
            sim.swap_out(w.snap, saved)
        w.free_at = sim.now
        w.done_chunks += 1
        if self.maxtasks is not None and w.done_chunks >= self.maxtasks:
            # worker exits and is replaced by a fresh fork of the parent as it is now
            i = self.workers.index(w)
            self.workers[i] = _Worker(next(self._wid), sim.snapshot())
            self.workers[i].free_at = sim.now
            sim.res.probe("worker_replaced")
        job = chunk["job"]
        sim.completion_order.append(chunk["index"])
        job["order"].append(chunk["index"])
        if job["done"]:
            return
        if not ok:
            job["error"] = value
            job["done"] = True
            if job.get("error_callback") is not None:
                job["error_callback"](value)
            return
        job["results"][chunk["index"]] = value
        job["left"] -= 1
        if job["left"] == 0:
            job["value"] = [x for part in job["results"] for x in part]
            job["done"] = True
            if job.get("callback") is not None:
                # as in CPython: the callback runs in the parent as soon as the whole result is there
                job["callback"](job["value"][0] if job["kind"] == "apply" else job["value"])

    # -- public API (the map family) -----------------------------------------
    def map(self, func, iterable, chunksize=None):
        return _AsyncResult(self, self._submit(func, iterable, chunksize, False)).get()

    def starmap(self, func, iterable, chunksize=None):
        return _AsyncResult(self, self._submit(func, iterable, chunksize, True)).get()

    def map_async(self, func, iterable, chunksize=None, callback=None, error_callback=None):
        job = self._submit(func, iterable, chunksize, False)
        job["callback"], job["error_callback"] = callback, error_callback
        if job["done"] and callback is not None:
            callback(job["value"])
        return _AsyncResult(self, job)

    def starmap_async(self, func, iterable, chunksize=None, callback=None, error_callback=None):
        job = self._submit(func, iterable, chunksize, True)
        job["callback"], job["error_callback"] = callback, error_callback
        if job["done"] and callback is not None:
            callback(job["value"])
        return _AsyncResult(self, job)

    def apply(self, func, args=(), kwds={}):
        return self.apply_async(func, args, kwds).get()

    def apply_async(self, func, args=(), kwds={}, callback=None, error_callback=None):
        job = self._submit(_ApplyCall(func, kwds), [tuple(args)], 1, True, kind="apply")
        job["callback"], job["error_callback"] = callback, error_callback

        class _One(_AsyncResult):
            def _unwrap(s, v):
                return v[0]

        return _One(self, job)

    def imap(self, func, iterable, chunksize=1):
        job = self._submit(func, iterable, chunksize, False, kind="imap")
        self._drive(job)
        if job["error"] is not None:
            raise job["error"]
        return iter(job["value"])

    def imap_unordered(self, func, iterable, chunksize=1):
        job = self._submit(func, iterable, chunksize, False, kind="imap_unordered")
        self._drive(job)
        if job["error"] is not None:
            raise job["error"]
        vals = [x for i in job["order"] for x in job["results"][i]]
        self.sim.res.probe("unordered_results")
        return iter(vals)


class _ApplyCall:
    def __init__(self, func, kwds):
        self.func, self.kwds = func, kwds

    def __call__(self, *args):
        return self.func(*args, **self.kwds)


# ----------------------------------------------------------------------------
# concurrent.futures façade on top of SimPool (ProcessPoolExecutor, as_completed, wait)
# ----------------------------------------------------------------------------

import concurrent.futures as _cf


class SimFuture(_cf.Future):
    def __init__(self, executor, job):
        super().__init__()
        self._sim_ex = executor
        self._sim_job = job
        self.set_running_or_notify_cancel()

    def _sync(self):
        j = self._sim_job
        if j["done"] and not _cf.Future.done(self):
            if j["error"] is not None:
                self.set_exception(j["error"])
            else:
                v = j["value"]
                self.set_result(v[0] if j["kind"] == "apply" else v)

    def done(self):
        if not self._sim_job["done"]:
            self._sim_ex._pool._step()
        self._sim_ex._sync_all()
        return _cf.Future.done(self)

    def running(self):
        return not self._sim_job["done"]

    def cancel(self):
        return False

    def result(self, timeout=None):
        self._sim_ex._pool._drive(self._sim_job, timeout)
        self._sim_ex._sync_all()
        if not self._sim_job["done"]:
            self._sim_ex._pool.sim.res.fault("result_timeout")
            raise _cf.TimeoutError()
        return _cf.Future.result(self, 0)

    def exception(self, timeout=None):
        self._sim_ex._pool._drive(self._sim_job, timeout)
        self._sim_ex._sync_all()
        if not self._sim_job["done"]:
            raise _cf.TimeoutError()
        return _cf.Future.exception(self, 0)


class SimExecutor:
    """Stand-in for concurrent.futures.ProcessPoolExecutor: every submit is one task that crosses the
    process boundary through pickle and runs on a simulated worker; completion order is the simulator's."""

    def __init__(self, sim, max_workers=None, mp_context=None, initializer=None, initargs=(), max_tasks_per_child=None):
        if max_workers is not None and max_workers <= 0:
            raise ValueError("max_workers must be greater than 0")
        self._pool = SimPool(sim, max_workers or sim.cpu_count, initializer, initargs, max_tasks_per_child)
        self._futures = []
        self._completed = []  # futures in simulated completion order
        self._shutdown = False
        sim.res.probe("executor_created")

    def _sync_all(self):
        # futures are completed by the job callbacks at the moment their chunk finishes; nothing to scan
        return

    def submit(self, fn, /, *args, **kwargs):
        if self._shutdown:
            raise RuntimeError("cannot schedule new futures after shutdown")
        job = self._pool._submit(_ApplyCall(fn, kwargs), [tuple(args)], 1, True, kind="apply")
        fut = SimFuture(self, job)
        self._futures.append(fut)
        def on_done(_v, fut=fut):
            fut._sync()
            self._completed.append(fut)

        job["callback"] = on_done
        job["error_callback"] = on_done
        return fut

    def map(self, fn, *iterables, timeout=None, chunksize=1):
        if chunksize < 1:
            raise ValueError("chunksize must be >= 1.")
        job = self._pool._submit(fn, list(zip(*iterables)), chunksize, True, kind="map")
        pool = self._pool

        def gen():
            pool._drive(job, timeout)
            if not job["done"]:
                raise _cf.TimeoutError()
            if job["error"] is not None:
                raise job["error"]
            yield from job["value"]

        return gen()

    def shutdown(self, wait=True, cancel_futures=False):
        self._shutdown = True
        if wait and self._pool.state == "RUN":
            for j in list(self._pool.jobs):
                if not j["done"]:
                    self._pool._drive(j)
            self._sync_all()
        self._pool.close()

    def __enter__(self):
        return self

    def __exit__(self, *a):
        self.shutdown(wait=True)
        return False


def sim_as_completed(fs, timeout=None):
    fs = list(fs)
    if not all(isinstance(f, SimFuture) for f in fs):
        yield from _REAL_CF["as_completed"](fs, timeout)
        return
    want = set(id(f) for f in fs)
    yielded = set()
    executors = []
    for f in fs:
        if f._sim_ex not in executors:
            executors.append(f._sim_ex)
    cursor = {id(ex): 0 for ex in executors}
    while len(yielded) < len(want):
        progressed = False
        for ex in executors:
            done = ex._completed
            while cursor[id(ex)] < len(done):
                f = done[cursor[id(ex)]]
                cursor[id(ex)] += 1
                if id(f) in want and id(f) not in yielded:
                    yielded.add(id(f))
                    progressed = True
                    yield f
        if len(yielded) == len(want):
            break
        if not progressed:
            stepped = False
            for ex in executors:
                if ex._pool._step():
                    stepped = True
                    break
            if not stepped:
                raise RuntimeError("simulated executor deadlock in as_completed")


def sim_wait(fs, timeout=None, return_when="ALL_COMPLETED"):
    fs = list(fs)
    if not all(isinstance(f, SimFuture) for f in fs):
        return _REAL_CF["wait"](fs, timeout, return_when)
    done = []
    for f in sim_as_completed(fs):
        done.append(f)
        if return_when == "FIRST_COMPLETED" or (return_when == "FIRST_EXCEPTION" and _cf.Future.exception(f, 0) is not None):
            break
    return _cf._base.DoneAndNotDoneFutures(set(done), set(f for f in fs if f not in done))


_REAL_CF = {"ProcessPoolExecutor": _cf.ProcessPoolExecutor, "as_completed": _cf.as_completed, "wait": _cf.wait}


class patched_futures:
    """Route concurrent.futures.ProcessPoolExecutor / as_completed / wait (and copies of those names imported
    into the given modules) through the simulator."""

    def __init__(self, sim, modules=()):
        self.sim, self.modules = sim, list(modules)

    def __enter__(self):
        sim = self.sim

        def make(*a, **k):
            return SimExecutor(sim, *a, **k)

        self.repl = {"ProcessPoolExecutor": make, "as_completed": sim_as_completed, "wait": sim_wait}
        self.saved = []
        import concurrent.futures.process as _cfp

        for holder in [_cf, _cfp] + self.modules:
            for name, new in self.repl.items():
                cur = getattr(holder, name, None)
                if cur is not None and cur is _REAL_CF[name]:
                    self.saved.append((holder, name, cur))
                    setattr(holder, name, new)
        return self

    def __exit__(self, *a):
        for holder, name, cur in self.saved:
            setattr(holder, name, cur)
