"""RNG seams owned by the simulator (no source hook needed).

* OS entropy: numpy asks `numpy.random.bit_generator.randbits` (secrets) for
  entropy whenever a BitGenerator / SeedSequence is built without a seed.
  Replacing that one attribute makes unseeded `default_rng()` a function of the
  choice source.
* legacy global state: `np.random.seed / set_state`, Python `random.seed`.
"""

from __future__ import annotations

import random as pyrandom
from contextlib import contextmanager

import numpy as np
import numpy.random.bit_generator as _bg

_REAL_RANDBITS = _bg.randbits


class Entropy:
    """Answers numpy's entropy requests from a stream; counts them."""

    def __init__(self, stream, log=None, collide_permille=0, res=None):
        self.stream = stream
        self.log = log
        self.requests = 0
        self.collide_permille = collide_permille
        self.last = None
        self.res = res
        self.owner = None  # set by engines: name of the client running

    def __call__(self, k):
        self.requests += 1
        if self.last is not None and self.collide_permille and self.stream.draw(1000) >= 1000 - self.collide_permille:
            v = self.last  # colliding entropy: what forked children without reseeding see
            if self.res is not None:
                self.res.fault("colliding_entropy")
        else:
            v = self.stream.draw(1 << 64) | (self.stream.draw(1 << 64) << 64)
            v &= (1 << k) - 1
        self.last = v
        if self.log is not None:
            self.log.add("entropy", k, v & 0xFFFFFFFF)
        return v


@contextmanager
def entropy_seam(ent: Entropy):
    _bg.randbits = ent
    try:
        yield ent
    finally:
        _bg.randbits = _REAL_RANDBITS


def set_global_rngs(stream):
    """Put both process-global generators into a state drawn from the stream."""
    k = stream.draw(1 << 32)
    np.random.seed(k)
    pyrandom.seed(stream.draw(1 << 32))
    return k


def global_state_digest():
    st = np.random.get_state()
    import hashlib

    h = hashlib.sha256()
    h.update(st[1].tobytes())
    h.update(repr(st[2:]).encode())
    return h.hexdigest()[:16]
