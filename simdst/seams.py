"""RNG seams owned by the simulator (no source hook needed).

* OS entropy: numpy asks `numpy.random.bit_generator.randbits` (secrets) for
  entropy whenever a BitGenerator / SeedSequence is built without a seed.
  Replacing that one attribute makes unseeded `default_rng()` a function of the
  choice source.
* legacy global state: `np.random.seed / set_state`, Python `random.seed`.
"""

from __future__ import annotations

import random as pyrandom
from contextlib import contextmanager

import numpy as np
import numpy.random.bit_generator as _bg

_REAL_RANDBITS = _bg.randbits


class Entropy:
    """Answers numpy's entropy requests from a stream; counts them."""

    def __init__(self, stream, log=None, collide_permille=0, res=None):
        self.stream = stream
        self.log = log
        self.requests = 0
        self.collide_permille = collide_permille
        self.last = None
        self.res = res
        self.owner = None  # set by engines: name of the client running

    def __call__(self, k):
        self.requests += 1
        if self.last is not None and self.collide_permille and self.stream.draw(1000) >= 1000 - self.collide_permille:
            v = self.last  # colliding entropy: what forked children without reseeding see
            if self.res is not None:
                self.res.fault("colliding_entropy")
        else:
            v = self.stream.draw(1 << 64) | (self.stream.draw(1 << 64) << 64)
            v &= (1 << k) - 1
        self.last = v
        if self.log is not None:
            self.log.add("entropy", k, v & 0xFFFFFFFF)
        return v


@contextmanager
def entropy_seam(ent: Entropy):
    _bg.randbits = ent
    try:
        yield ent
    finally:
        _bg.randbits = _REAL_RANDBITS


def set_global_rngs(stream):
    """Put both process-global generators into a state drawn from the stream."""
    k = stream.draw(1 << 32)
    np.random.seed(k)
    pyrandom.seed(stream.draw(1 << 32))
    return k


def global_state_digest():
    st = np.random.get_state()
    import hashlib

    h = hashlib.sha256()
    h.update(st[1].tobytes())
    h.update(repr(st[2:]).encode())
    return h.hexdigest()[:16]


class global_rng_interrupts:
    """Writes to numpy's process-global legacy generator that land INSIDE a library call, at Python line
    boundaries of library code - what another thread of the process, a signal handler or a callback does to
    state that every caller shares.  The positions (counted in line events inside files under `prefix`) and
    the actions are drawn from the stream before the call starts, so a call costs a handful of draws whatever
    its length.  Actions: reseed (the draws that follow repeat an earlier sequence), advance (other code
    consumed numbers), rewind to the state at the start of the call (two restarts see the very same draws)."""

    def __init__(self, stream, prefix, res=None, log=None, max_events=4, horizon=3000):
        import sys

        self.sys = sys
        self.prefix = prefix
        self.res, self.log = res, log
        n = 1 + stream.draw(max_events)
        plan = []
        for _ in range(n):
            # half of the positions early in the call, the rest anywhere up to the horizon
            pos = stream.draw(200) if stream.draw(2) else stream.draw(horizon)
            plan.append((pos, stream.draw(3), stream.draw(1 << 16)))
        self.plan = sorted(plan)
        self.count = 0
        self.fired = []
        self.k = 0

    def _act(self, frame):
        pos, kind, val = self.plan[self.k]
        self.k += 1
        if kind == 0:
            np.random.seed(val % 5)
            what = "reseed"
        elif kind == 1:
            np.random.randn(1 + val % 11)
            what = "advance"
        else:
            np.random.set_state(self.start_state)
            what = "rewind"
        where = "%s:%s" % (frame.f_code.co_name.lstrip("_"), frame.f_lineno)
        self.fired.append((what, where))
        if self.res is not None:
            self.res.fault("global_rng_write_inside_call:" + what)
        if self.log is not None:
            self.log.add("rng_interrupt", what, where, self.count)

    def _local(self, frame, event, arg):
        if event == "line" and self.k < len(self.plan):
            self.count += 1
            while self.k < len(self.plan) and self.count > self.plan[self.k][0]:
                self._act(frame)
        return self._local

    def _glob(self, frame, event, arg):
        if event == "call" and self.k < len(self.plan) and frame.f_code.co_filename.startswith(self.prefix):
            return self._local
        return None

    def __enter__(self):
        self.start_state = np.random.get_state()
        self.prev = self.sys.gettrace()
        self.sys.settrace(self._glob)
        return self

    def __exit__(self, *a):
        self.sys.settrace(self.prev)
