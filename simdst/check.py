"""`sim check <property>`: run the engines of one property, report, write evidence."""

from __future__ import annotations

import json
import os
import subprocess
import sys
import time

from . import driver, known
from .driver import VERIF

ENGINES = {
    "C07": ["simdst.engines.c07_pool", "simdst.engines.c07_hist", "simdst.engines.c07_threads"],
    "C08": ["simdst.engines.c08_pool", "simdst.engines.c08_hist", "simdst.engines.c08_threads"],
    "C09": ["simdst.engines.c09_hist", "simdst.engines.c09_hedge", "simdst.engines.c09_threads"],
    "C12": ["simdst.engines.c12_hist", "simdst.engines.c12_threads"],
    "C14": ["simdst.engines.c14_sk"],
    "C19": ["simdst.engines.c19_rand"],
}

ENGINE_NAMES = {"simdst.engines.c07_pool": "A", "simdst.engines.c07_hist": "B", "simdst.engines.c08_pool": "A8", "simdst.engines.c08_hist": "B8", "simdst.engines.c09_hist": "B9", "simdst.engines.c09_hedge": "B9h", "simdst.engines.c12_hist": "H", "simdst.engines.c14_sk": "K", "simdst.engines.c19_rand": "R", "simdst.engines.c08_threads": "T8", "simdst.engines.c12_threads": "HT", "simdst.engines.c07_threads": "T7", "simdst.engines.c09_threads": "T9"}

# Probes whose firing depends on what the LIBRARY does (which seam it uses, whether a solver returned a value)
# rather than on what the harness generates.  A legitimate refactor may stop reaching a seam (e.g. another
# parallelisation mechanism): that is reported as a WARNING and in the evidence, never as a non-zero exit.
ADVISORY_PROBES = {
    "pool_branch_entered", "two_chunks_two_workers", "out_of_order_completion", "single_worker_pool", "sixtyone_worker_pool",
    "lower_bound_obtained", "two_lower_bounds_different_entropy", "npa_obtained", "npa2_obtained", "value_strictly_inside",
    "quantum_bracketed", "npa1_compared", "quantum_gap", "level2", "level2_2x3", "primal_value", "local_unitary_checked",
    "randomized_stage_ran", "exact_regime:k_ge_min_dim", "exact_regime:rank_one", "exact_regime:transpose_exact",
    "result_differs_between_rng_states", "own_upper_bound:dps2", "own_upper_bound:bilinear",
    "switch_inside_generator", "switch_inside_library_call", "pgm_checked", "measure_checked", "popt_sdp_checked", "real_pool_crosscheck",
}

SHRINK_BUDGET = {"quick": 20.0, "thorough": 180.0}
BATCH_WALL = {"quick": 240.0, "thorough": 3600.0}


def _jobs():
    try:
        return max(1, int(os.environ.get("VERIF_JOBS", "0")) or (os.cpu_count() or 4))
    except ValueError:
        return os.cpu_count() or 4


def check(prop, tier, verif_seed, only_engine=None, runs_override=None, out=print):
    t_start = time.time()
    mono0 = time.monotonic()
    repo = os.environ.get("VERIF_REPO", "/repo")
    jobs = _jobs()
    mods = ENGINES[prop]
    agg = {
        "evaluations": 0, "nontrivial_keys": set(), "interleavings": set(), "probes": {}, "faults": {},
        "opfail": {}, "checks_sim": 0, "checks_workload": 0, "sim_time": 0.0, "samples": [],
        "timeouts": 0, "known_hits": {}, "harness_errors": [], "digests": 0, "draws": 0,
        "per_engine": {}, "skipped": 0, "margins": {},
    }
    violations = []  # (engine, run_index, invariant, detail, choices)
    rules, comps_real, comps_stub = [], [], []
    harness_fail = False

    if only_engine:
        mods = [m for m in mods if m.rsplit(".", 1)[1] == only_engine or ENGINE_NAMES.get(m) == only_engine]
    for modname in mods:
        engine = driver._load_engine(modname)
        n_runs = runs_override or engine.RUNS[tier]
        rules.append(f"[{engine.NAME}] {engine.RULE}")
        comps_real += [c for c in engine.COMPONENTS["real"] if c not in comps_real]
        comps_stub += [c for c in engine.COMPONENTS["stub"] if c not in comps_stub]
        per = {"runs": 0, "nontrivial": 0, "wall_s": 0.0, "violations": 0}
        seen_inv = set()
        stop = {"flag": False}
        e_keys = set()
        t0 = time.monotonic()
        share = BATCH_WALL[tier] / len(mods)
        deadline = [t0 + share]

        def on_result(o, engine=engine, per=per, seen_inv=seen_inv, e_keys=e_keys, deadline=deadline):
            nonlocal harness_fail
            if not o.get("ok"):
                agg["harness_errors"].append({"engine": engine.NAME, "run_index": o.get("run_index"), "error": (o.get("error") or "")[-700:]})
                harness_fail = True
                return
            if o.get("timeout"):
                agg["timeouts"] += 1
                agg["opfail"]["run_wall_cap"] = agg["opfail"].get("run_wall_cap", 0) + 1
                return
            agg["evaluations"] += 1
            per["runs"] += 1
            agg["draws"] += o["draws"]
            for k, v in o["probes"].items():
                agg["probes"][k] = agg["probes"].get(k, 0) + v
            for k, v in o["faults"].items():
                agg["faults"][k] = agg["faults"].get(k, 0) + v
            for k, v in o["opfail"].items():
                agg["opfail"][k] = agg["opfail"].get(k, 0) + v
            for k, v in o.get("margins", {}).items():
                if v > agg["margins"].get(k, float("-inf")):
                    agg["margins"][k] = round(v, 4)
            agg["checks_sim"] += o["checks_sim"]
            agg["checks_workload"] += o["checks_workload"]
            agg["sim_time"] += o["sim_time"]
            if o["nontrivial"]:
                key = (engine.NAME, o["case_key"])
                if key not in agg["nontrivial_keys"]:
                    agg["nontrivial_keys"].add(key)
                    per["nontrivial"] += 1
            if o["interleaving"]:
                agg["interleavings"].add((engine.NAME, o["interleaving"]))
            if o["sample"] is not None and len([s for s in agg["samples"] if s["engine"] == engine.NAME]) < 3 and o["nontrivial"]:
                agg["samples"].append({"engine": engine.NAME, "run_index": o["run_index"], "case": o["sample"], "event_digest": o["digest"]})
            for kid, inv in o["known_hits"]:
                agg["known_hits"][kid] = agg["known_hits"].get(kid, 0) + 1
            for inv, det in o["new_violations"]:
                per["violations"] += 1
                if inv not in seen_inv and len(seen_inv) < 3:
                    seen_inv.add(inv)
                    violations.append((engine, o["run_index"], inv, det, o["choices"], o.get("prefix", [])))
                    # stop exploring soon: a violation has been found
                    deadline[0] = min(deadline[0], time.monotonic() + 1.0)

        farm = driver.Farm(modname, tier, verif_seed, jobs, engine.RUN_WALL_CAP)
        try:
            skipped = _run_with_deadline(farm, range(n_runs), on_result, deadline)
        finally:
            farm.close()
        agg["skipped"] += skipped
        per["wall_s"] = round(time.monotonic() - t0, 2)
        per["planned"] = n_runs
        agg["per_engine"][engine.NAME] = per
        # self-check: required probes
        for pname in engine.REQUIRED_PROBES.get(tier, []):
            if agg["probes"].get(pname, 0) == 0 and not violations and skipped == 0:
                if pname in ADVISORY_PROBES:
                    agg.setdefault("seams_not_reached", []).append(f"{engine.NAME}:{pname}")
                    out(f"WARNING property={prop} engine {engine.NAME}: probe '{pname}' never fired in this batch (the library did not reach that seam / regime); coverage of the corresponding clause is reduced")
                else:
                    agg["harness_errors"].append({"engine": engine.NAME, "error": f"probe {pname} never fired"})
                    harness_fail = True

    # ---- violations: shrink, write replay, verify in a fresh interpreter ----
    exit_code = 0
    reported = []
    for engine, run_index, inv, det, choices, prefix in violations:
        out(f"[{prop}] violation of {inv} in engine {engine.NAME} run {run_index}: {json.dumps(det)[:600]}")
        use_prefix = None
        small = driver.shrink(engine, choices, inv, tier, run_index, SHRINK_BUDGET[tier], log=out)
        res = driver.run_recorded(engine, small, tier, run_index, engine.RUN_WALL_CAP * 2)
        if not driver._has(res, prop, inv):
            # fall back to the unshrunk choices
            small = choices
            res = driver.run_recorded(engine, small, tier, run_index, engine.RUN_WALL_CAP * 2)
        if not driver._has(res, prop, inv) and prefix:
            # last resort: the failure depends on state that survived earlier runs of the same worker process
            # (something the per-run isolation does not reach): replay those runs first, then drop as many as possible
            use_prefix = list(prefix)
            res = driver.run_recorded(engine, small, tier, run_index, engine.RUN_WALL_CAP * 2, prefix=use_prefix, verif_seed=verif_seed)
            if driver._has(res, prop, inv):
                t_end = time.monotonic() + SHRINK_BUDGET[tier]
                step = max(1, len(use_prefix) // 2)
                while step >= 1 and time.monotonic() < t_end:
                    i = 0
                    while i < len(use_prefix) and time.monotonic() < t_end:
                        cand = use_prefix[:i] + use_prefix[i + step:]
                        r2 = driver.run_recorded(engine, small, tier, run_index, engine.RUN_WALL_CAP * 2, prefix=cand, verif_seed=verif_seed)
                        if driver._has(r2, prop, inv):
                            use_prefix, res = cand, r2
                        else:
                            i += step
                    step //= 2
                out(f"[{prop}] {inv} reproduces only after {len(use_prefix)} earlier run(s) in the same process: {use_prefix[:12]}")
        if not driver._has(res, prop, inv):
            out(f"HARNESS-ERROR property={prop} violation of {inv} did not reproduce from its own choice list (run {run_index})")
            harness_fail = True
            continue
        path = driver.write_replay(engine, inv, verif_seed, tier, run_index, res["taken"], res, repo, prefix=use_prefix)
        env = dict(os.environ)
        p = subprocess.run([sys.executable, os.path.join(VERIF, "simdst", "cli.py"), "replay", path, "--quiet"], env=env, capture_output=True, text=True, timeout=engine.RUN_WALL_CAP * 4 + 120)
        if p.returncode != 1:
            out(f"HARNESS-ERROR property={prop} replay of {path} in a fresh interpreter did not reproduce: {p.stdout[-500:]} {p.stderr[-500:]}")
            harness_fail = True
            continue
        d2 = [d for i, d in res["violations"] if i == inv]
        out(f"[{prop}] minimised: {json.dumps(d2[0] if d2 else None)[:800]}")
        out(f"VIOLATION property={prop} replay={path}")
        reported.append({"invariant": inv, "replay": path})
        exit_code = 1

    for kf in known.load():
        if kf["property"] == prop and kf.get("status") == "open":
            out(f"KNOWN-FINDING: property={prop} {kf['what']} [id={kf['id']} invariant={kf['invariant']} hits_this_run={agg['known_hits'].get(kf['id'], 0)}]")

    wall = time.time() - t_start
    ev = {
        "property_id": prop,
        "tier": tier,
        "seed": int(verif_seed),
        "level": "exploration",
        "coverage": {
            "evaluations": agg["evaluations"],
            "distinct_nontrivial": len(agg["nontrivial_keys"]),
            "rule": " || ".join(rules),
            "samples": agg["samples"],
            "runs_per_hour": round(agg["evaluations"] / max(wall, 1e-9) * 3600),
            "seeds": {"VERIF_SEED": int(verif_seed), "per_run": "sha256('run', VERIF_SEED, engine, run_index)", "run_indices": {k: [0, v["planned"] - 1] for k, v in agg["per_engine"].items()}},
            "simulated_time": {"value": round(agg["sim_time"], 3), "unit": "task-cost units (pool engines) / pre-emption points (thread engine); the library has no clock"},
            "fault_kinds_fired": agg["faults"],
            "distinct_interleavings": len(agg["interleavings"]),
            "probes": agg["probes"],
            "operations_failed": agg["opfail"],
            "sim_decided_checks": agg["checks_sim"],
            "workload_only_checks": agg["checks_workload"],
            "choice_draws": agg["draws"],
            "components": {"real": comps_real, "stub": comps_stub},
            "per_engine": agg["per_engine"],
            "runs_not_started_batch_wall": agg["skipped"],
            "known_finding_hits": agg["known_hits"],
            "seams_not_reached": agg.get("seams_not_reached", []),
            "closest_margins": {"explanation": "largest observed (excess / allowed slack) per tolerance-based comparison; 1.0 would be a violation, negative means strictly inside", "values": agg["margins"]},
            "reported": reported,
            "harness_errors": agg["harness_errors"][:5],
            "jobs": jobs,
        },
        "assumptions": [
            "CPython, numpy, scipy, cvxpy+SCS/Clarabel, picos+cvxopt behave as deterministic functions of their inputs",
            "search is seeded sampling of schedules / entropy / histories: a clean batch is evidence, not proof",
            "pre-emption at Python line granularity in toqito files; numpy calls are atomic",
        ],
        "wall_s": round(wall, 2),
        "violations": len(reported),
    }
    os.makedirs(os.path.join(driver.outdir(), "evidence"), exist_ok=True)
    with open(os.path.join(driver.outdir(), "evidence", f"{prop}.json"), "w") as f:
        json.dump(ev, f, indent=1, sort_keys=True)
    out(f"[{prop}] tier={tier} seed={verif_seed} runs={agg['evaluations']} nontrivial={len(agg['nontrivial_keys'])} interleavings={len(agg['interleavings'])} sim_checks={agg['checks_sim']} workload_checks={agg['checks_workload']} timeouts={agg['timeouts']} wall={wall:.1f}s")
    if exit_code == 1:
        return 1
    if harness_fail:
        for h in agg["harness_errors"][:5]:
            out(f"HARNESS-ERROR property={prop} {h}")
        return 2
    return 0


def _run_with_deadline(farm, indices, on_result, deadline):
    """Farm.run_all with a deadline that on_result may shorten."""
    it = iter(indices)
    skipped = 0

    class Gate:
        def __iter__(self):
            return self

        def __next__(self):
            if time.monotonic() > deadline[0]:
                raise StopIteration
            return next(it)

    farm.run_all(Gate(), on_result, float("inf"))
    skipped = sum(1 for _ in it)
    return skipped
