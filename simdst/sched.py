"""Deterministic thread scheduler: real threads, one runs at a time.

Simulated clients are real `threading.Thread`s released one at a time by baton
passing (one Event per thread).  A `sys.settrace` tracer installed in every
client thread turns each `line` event in frames whose file lies under the
traced directories into a pre-emption point; there the choice source decides
"continue" or "switch to runnable thread j".  What is real: the threads and all
library code.  What is not real: the choice of who runs.
"""

from __future__ import annotations

import hashlib
import os
import sys
import threading


class Scheduler:
    def __init__(self, stream, switch_permille, traced_prefixes, step_cap=4000, log=None):
        self.stream = stream
        self.switch_permille = switch_permille
        self.prefixes = tuple(traced_prefixes)
        self.step_cap = step_cap
        self.log = log
        self.clients = []  # [name, fn, thread, event, finished]
        self.current = None
        self.done = threading.Event()
        self.steps = 0
        self.switches = 0
        self.switches_inside = 0
        self.trail = hashlib.sha256()
        self.error = None
        self.depth = {}  # client index -> nesting depth inside library calls
        self._file_cache = {}

    # -- setup ---------------------------------------------------------------
    def add(self, name, fn):
        self.clients.append({"name": name, "fn": fn, "ev": threading.Event(), "finished": False, "thread": None})

    # -- tracing ---------------------------------------------------------------
    def _traced(self, filename):
        r = self._file_cache.get(filename)
        if r is None:
            r = filename.startswith(self.prefixes)
            self._file_cache[filename] = r
        return r

    def _make_tracer(self, idx):
        def local(frame, event, arg):
            if event == "line":
                self.yield_point(idx, frame)
            return local

        def glob(frame, event, arg):
            if event == "call" and self._traced(frame.f_code.co_filename):
                return local
            return None

        return glob

    # -- the scheduling decision ----------------------------------------------
    def yield_point(self, idx, frame=None):
        """Called by the running client at a pre-emption point."""
        self.steps += 1
        if self.steps > self.step_cap:
            return
        others = [i for i, c in enumerate(self.clients) if not c["finished"] and i != idx]
        if not others:
            return
        if self.stream.draw(1000) < 1000 - self.switch_permille:
            return
        j = others[self.stream.draw(len(others))]
        self.switches += 1
        if frame is not None:
            self.switches_inside += 1
            where = "%s:%d" % (os.path.basename(frame.f_code.co_filename), frame.f_lineno)
        else:
            where = "op-boundary"
        self.trail.update(("%d>%d@%s;" % (idx, j, where)).encode())
        if self.log is not None:
            self.log.add("switch", self.clients[idx]["name"], self.clients[j]["name"], where)
        self._handoff(idx, j)

    def _handoff(self, idx, j):
        me = self.clients[idx]
        me["ev"].clear()
        self.current = j
        self.clients[j]["ev"].set()
        me["ev"].wait()

    def _finish(self, idx):
        self.clients[idx]["finished"] = True
        others = [i for i, c in enumerate(self.clients) if not c["finished"]]
        if not others:
            self.done.set()
            return
        # who continues after a thread ends is also a scheduler decision
        j = others[self.stream.draw(len(others))]
        self.current = j
        self.clients[j]["ev"].set()

    def _body(self, idx):
        c = self.clients[idx]
        c["ev"].wait()
        tracer = self._make_tracer(idx)
        sys.settrace(tracer)
        try:
            c["fn"](lambda: self.yield_point(idx))
        except BaseException as e:  # harness bug: engines catch library errors themselves
            self.error = e
        finally:
            sys.settrace(None)
            self._finish(idx)

    def run(self, wall_timeout=60.0):
        if not self.clients:
            return
        for i, c in enumerate(self.clients):
            t = threading.Thread(target=self._body, args=(i,), name="sim-%s" % c["name"], daemon=True)
            c["thread"] = t
            t.start()
        first = self.stream.draw(len(self.clients))
        self.current = first
        self.clients[first]["ev"].set()
        if not self.done.wait(wall_timeout):
            raise TimeoutError("scheduler: clients did not finish")
        for c in self.clients:
            c["thread"].join(5)
        if self.error is not None:
            raise self.error

    def interleaving_digest(self):
        return self.trail.hexdigest()[:16] if self.switches else ""
