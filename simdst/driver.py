"""Driver: runs many seeded simulations across forked workers, shrinks and
replays failures, matches known findings, writes evidence.

An *engine* is a module exposing
    NAME, PROPERTY                      identifiers
    RUNS = {"quick": n, "thorough": n}  number of simulated runs per tier
    RUN_WALL_CAP = seconds              per-run wall cap (worker is killed after it)
    REQUIRED_PROBES = {tier: [names]}   probes that must have fired (self-check)
    COMPONENTS = {"real": [...], "stub": [...]}
    RULE = "..."                        how cases are generated / what is non-trivial
    run(cs, tier, run_index) -> RunResult
"""

from __future__ import annotations

import copy
import faulthandler
import json
import multiprocessing as mp
import multiprocessing.connection as mpc
import os
import signal
import subprocess
import sys
import time
import traceback
import types

from . import known
from .core import ChoiceSource, RunResult, mix

VERIF = os.path.dirname(os.path.dirname(os.path.abspath(__file__)))
FORMAT = 1


def outdir():
    """Where evidence/ and replays/ go: /verif, or VERIF_OUT for mutant and scratch runs."""
    return os.environ.get("VERIF_OUT") or VERIF


def run_seed_for(verif_seed: int, engine_name: str, run_index: int) -> int:
    return mix("run", verif_seed, engine_name, run_index)


class _LibraryState:
    """Module-level and class-level data of every loaded toqito module, captured before a run and
    put back after it: whatever a run (or a mutant under test) leaves behind - a cache, a shared
    pool, a counter - must not reach the next run executed by the same worker process, otherwise a
    failure would depend on which runs happened to precede it and would not replay."""

    SKIP = (types.ModuleType, types.FunctionType, types.BuiltinFunctionType, type)
    EXTRA_MODULES = ("picos.settings", "cvxpy.settings")

    _cache = {"n": -1, "targets": None, "functions": None}

    def _targets(self):
        c = self._cache
        if c["n"] != len(sys.modules) or c["targets"] is None:
            c["n"] = len(sys.modules)
            c["targets"] = list(self._targets_scan())
            c["functions"] = list(self._functions_scan())
        return c["targets"]

    def _functions(self):
        self._targets()
        return self._cache["functions"]

    def _targets_scan(self):
        for name, mod in list(sys.modules.items()):
            if mod is None:
                continue
            if name in self.EXTRA_MODULES:
                yield mod  # process-global option modules of the solvers' front ends
                continue
            if not (name == "toqito" or name.startswith("toqito.")):
                continue
            yield mod
            for v in list(vars(mod).values()):
                if isinstance(v, type) and getattr(v, "__module__", "").startswith("toqito."):
                    yield v

    def _data(self, obj):
        out = {}
        for k, v in list(vars(obj).items()):
            if k.startswith("__"):
                continue
            if isinstance(obj, types.ModuleType):
                if isinstance(v, self.SKIP) or callable(v):
                    continue
            elif callable(v) or isinstance(v, (classmethod, staticmethod, property)):
                continue
            out[k] = v
        return out

    def _functions_scan(self):
        """Functions and methods defined in toqito modules (module level and in classes)."""
        seen = set()
        for name, mod in list(sys.modules.items()):
            if mod is None or not (name == "toqito" or name.startswith("toqito.")):
                continue
            for v in list(vars(mod).values()):
                cands = [v]
                if isinstance(v, type) and getattr(v, "__module__", "").startswith("toqito."):
                    cands = [getattr(w, "__func__", w) for w in vars(v).values()]
                for f in cands:
                    if id(f) in seen:
                        continue
                    if hasattr(f, "cache_clear") or (isinstance(f, types.FunctionType) and getattr(f, "__module__", "").startswith("toqito")):
                        seen.add(id(f))
                        yield f

    def capture_functions(self):
        """Mutable default arguments (shared by every call) and memoising wrappers."""
        out = []
        for f in self._functions():
            inner = getattr(f, "__wrapped__", f)
            d = getattr(inner, "__defaults__", None) or ()
            kd = getattr(inner, "__kwdefaults__", None) or {}
            muts = [(v, copy.deepcopy(v)) for v in list(d) + list(kd.values()) if isinstance(v, (list, dict, set))]
            if muts or hasattr(f, "cache_clear"):
                out.append((f, muts))
        return out

    def restore_functions(self, saved):
        for f, muts in saved:
            if hasattr(f, "cache_clear"):
                try:
                    f.cache_clear()
                except Exception:
                    pass
            for v, cp in muts:
                fresh = copy.deepcopy(cp)
                if isinstance(v, list):
                    v[:] = fresh
                else:
                    v.clear()
                    v.update(fresh)

    def capture(self):
        saved = []
        for obj in self._targets():
            data = self._data(obj)
            copies = {}
            for k, v in data.items():
                if isinstance(v, (dict, list, set, bytearray)):
                    try:
                        copies[k] = copy.deepcopy(v)
                    except Exception:
                        pass
            saved.append((obj, data, copies))
        saved.append(("functions", self.capture_functions(), None))
        return saved

    def restore(self, saved):
        captured = set(id(obj) for obj, _, _ in saved)
        # modules imported after the capture keep whatever they have; everything captured goes back
        for obj, data, copies in saved:
            if isinstance(obj, str):
                self.restore_functions(data)
                # memoising wrappers created after the capture are emptied as well
                for f in self._functions():
                    if hasattr(f, "cache_clear"):
                        try:
                            f.cache_clear()
                        except Exception:
                            pass
                continue
            now = self._data(obj)
            for k in now:
                if k not in data:
                    try:
                        delattr(obj, k)
                    except Exception:
                        pass
            for k, v in data.items():
                if k in copies:
                    # undo in-place mutation of a module-level container
                    fresh = copy.deepcopy(copies[k])
                    if isinstance(v, dict):
                        v.clear()
                        v.update(fresh)
                    elif isinstance(v, list):
                        v[:] = fresh
                    elif isinstance(v, set):
                        v.clear()
                        v.update(fresh)
                if now.get(k, None) is not v:
                    try:
                        setattr(obj, k, v)
                    except Exception:
                        pass
        return captured

    def __enter__(self):
        self.saved = self.capture()
        return self

    def __exit__(self, *a):
        self.restore(self.saved)


LIB = _LibraryState()
_PRISTINE = {"snap": None}


class pristine_library_state:
    """Temporarily put the library's module/class-level data back to what it was when the current
    run started (reference evaluations must not see caches filled earlier in the same history)."""

    def __enter__(self):
        self.cur = LIB.capture()
        if _PRISTINE["snap"] is not None:
            LIB.restore(_PRISTINE["snap"])
        return self

    def __exit__(self, *a):
        LIB.restore(self.cur)


NOISE_SENSITIVE = (".ord.", ".val.ns", ".val.npa1", ".val.tsirelson", ".val.reps_power", ".val.same_as_game", "hedge.primal_dual",
                   "hedge.model", "hedge.max_ge_min", "hedge.reps", "C12.val.", "C14.sk.order", "C14.sk.witness", "C14.sk.lower_valid", "C14.sk.exact")


class accurate_solver:
    """While active, every cvxpy solve that the code under test issues WITHOUT choosing a solver or solver options
    is carried out to high accuracy (Clarabel, falling back to SCS with eps 1e-9).  Used only to tell solver noise
    from a real violation: a tolerance-based invariant that fails with the library's default solver settings is
    reported only if it still fails when the same run is repeated with accurate solves."""

    def __enter__(self):
        import cvxpy

        self.cvxpy = cvxpy
        self.orig = cvxpy.Problem.solve
        orig = self.orig

        def solve(prob, *args, **kwargs):
            if args or kwargs:
                return orig(prob, *args, **kwargs)
            try:
                v = orig(prob, solver=cvxpy.CLARABEL)
                if prob.status == "optimal":
                    return v
            except Exception:
                pass
            try:
                v = orig(prob, solver=cvxpy.SCS, eps=1e-9, max_iters=500000)
                if prob.status == "optimal":
                    return v
            except Exception:
                pass
            return orig(prob)

        cvxpy.Problem.solve = solve
        return self

    def __exit__(self, *a):
        self.cvxpy.Problem.solve = self.orig


def _noise_sensitive(inv):
    return any(t in inv for t in NOISE_SENSITIVE)


def execute(engine, cs: ChoiceSource, tier: str, run_index: int) -> RunResult:
    res = _execute_once(engine, cs, tier, run_index)
    suspects = sorted(set(inv for inv, _ in res.violations if _noise_sensitive(inv)))
    if suspects:
        # same run (same choices), accurate solves: what persists is a violation, what vanishes was solver noise
        cs2 = ChoiceSource(recorded=cs.taken())
        try:
            with accurate_solver():
                res2 = _execute_once(engine, cs2, tier, run_index)
            still = set(inv for inv, _ in res2.violations)
        except BaseException:
            still = set(suspects)  # could not be confirmed either way: keep the report
        dropped = [inv for inv in suspects if inv not in still]
        if dropped:
            res.violations = [(inv, det) for inv, det in res.violations if inv not in dropped]
            for inv in dropped:
                res.failed("solver_noise:" + inv)
    return res


def _execute_once(engine, cs: ChoiceSource, tier: str, run_index: int) -> RunResult:
    """One simulated run, started from pristine process-global state.  Library exceptions are the
    engine's business; an exception escaping here is a harness error."""
    import random as _pyrandom

    import numpy as _np

    import warnings as _warnings

    _np.random.seed(0)
    _pyrandom.seed(0)
    err0 = _np.seterr(divide="warn", over="warn", under="ignore", invalid="warn")  # numpy's defaults
    filters0 = list(_warnings.filters)
    with _LibraryState() as st:
        _PRISTINE["snap"] = st.saved
        try:
            return engine.run(cs, tier, run_index)
        finally:
            _PRISTINE["snap"] = None
            _np.seterr(**err0)
            _warnings.filters[:] = filters0


def unknown_violations(violations, prop):
    """Split violations into (unlisted, listed-as-known-finding)."""
    new, listed = [], []
    for inv, det in violations:
        kf = known.match(prop, inv, det)
        if kf is None:
            new.append((inv, det))
        else:
            listed.append((kf, inv, det))
    return new, listed


# ----------------------------------------------------------------------------
# worker processes
# ----------------------------------------------------------------------------

def _worker(conn, engine_modname, tier, verif_seed):
    try:
        faulthandler.enable()
        signal.signal(signal.SIGINT, signal.SIG_IGN)
        engine = _load_engine(engine_modname)
        executed = []
        while True:
            msg = conn.recv()
            if msg is None:
                break
            run_index = msg
            seed = run_seed_for(verif_seed, engine.NAME, run_index)
            cs = ChoiceSource(run_seed=seed)
            t0 = time.perf_counter()
            try:
                res = execute(engine, cs, tier, run_index)
                out = res.summary()
                new, listed = unknown_violations(res.violations, engine.PROPERTY)
                out["new_violations"] = new
                out["known_hits"] = [(kf["id"], inv) for kf, inv, _ in listed]
                if new:
                    out["choices"] = cs.taken()
                    out["prefix"] = list(executed)  # runs this worker process executed before (fallback replay)
                out["draws"] = cs.total_draws()
                out["ok"] = True
            except BaseException as e:  # harness error, not a violation
                out = {"ok": False, "error": "".join(traceback.format_exception(e))[-4000:]}
            executed.append(run_index)
            out["run_index"] = run_index
            out["wall"] = time.perf_counter() - t0
            conn.send(out)
    except (EOFError, KeyboardInterrupt):
        pass
    finally:
        try:
            conn.close()
        except Exception:
            pass
        os._exit(0)


def _load_engine(modname):
    import importlib

    mod = importlib.import_module(modname)
    if hasattr(mod, "preload"):
        mod.preload()  # import the library in the parent so that forked children start warm
    return mod


class Farm:
    """N forked workers, one run at a time each, per-run wall cap enforced by
    killing and respawning the worker (step caps do not bound hangs)."""

    def __init__(self, engine_modname, tier, verif_seed, jobs, wall_cap):
        self.ctx = mp.get_context("fork")
        self.args = (engine_modname, tier, verif_seed)
        self.jobs = jobs
        self.wall_cap = wall_cap
        self.workers = []  # [proc, conn, run_index|None, started]
        for _ in range(jobs):
            self.workers.append(self._spawn())

    def _spawn(self):
        parent, child = self.ctx.Pipe()
        p = self.ctx.Process(target=_worker, args=(child,) + self.args, daemon=False)  # non-daemonic: the real-pool cross-check needs children
        p.start()
        child.close()
        return [p, parent, None, 0.0]

    def run_all(self, indices, on_result, deadline):
        """Dispatch indices; call on_result(dict) for each.  Returns number not
        started because the batch deadline passed."""
        it = iter(indices)
        pending = 0
        exhausted = False
        skipped = 0
        while True:
            # hand out work
            for w in self.workers:
                if w[2] is None and not exhausted:
                    if time.monotonic() > deadline:
                        exhausted = True
                        skipped = sum(1 for _ in it)
                        break
                    try:
                        idx = next(it)
                    except StopIteration:
                        exhausted = True
                        break
                    w[1].send(idx)
                    w[2] = idx
                    w[3] = time.monotonic()
                    pending += 1
            if pending == 0 and exhausted:
                break
            ready = mpc.wait([w[1] for w in self.workers if w[2] is not None], timeout=0.5)
            now = time.monotonic()
            for i, w in enumerate(self.workers):
                if w[2] is None:
                    continue
                if w[1] in ready:
                    try:
                        out = w[1].recv()
                    except (EOFError, ConnectionError):
                        out = {"ok": False, "run_index": w[2], "error": "worker died (exit %s)" % w[0].exitcode}
                        self._kill(w)
                        self.workers[i] = self._spawn()
                        pending -= 1
                        on_result(out)
                        continue
                    w[2] = None
                    pending -= 1
                    on_result(out)
                elif now - w[3] > self.wall_cap:
                    idx = w[2]
                    self._kill(w)
                    self.workers[i] = self._spawn()
                    pending -= 1
                    on_result({"ok": True, "timeout": True, "run_index": idx, "wall": now - w[3]})
        return skipped

    def _kill(self, w):
        try:
            w[0].kill()
            w[0].join(2)
            w[1].close()
        except Exception:
            pass

    def close(self):
        for w in self.workers:
            try:
                w[1].send(None)
            except Exception:
                pass
        for w in self.workers:
            w[0].join(1)
            if w[0].is_alive():
                w[0].kill()


# ----------------------------------------------------------------------------
# replay and shrinking
# ----------------------------------------------------------------------------

def run_recorded(engine, choices, tier, run_index, wall_cap, prefix=None, verif_seed=0):
    """Run from a recorded choice dict in a forked child (bounded wall).  `prefix`: run indices to
    execute first, from their seeds, in the same process (only used when a failure does not reproduce
    in isolation, i.e. depends on state that survived earlier runs of the same worker process)."""
    ctx = mp.get_context("fork")
    parent, child = ctx.Pipe()

    def target():
        try:
            for idx in prefix or []:
                try:
                    execute(engine, ChoiceSource(run_seed=run_seed_for(verif_seed, engine.NAME, idx)), tier, idx)
                except BaseException:
                    pass
            cs = ChoiceSource(recorded=choices)
            res = execute(engine, cs, tier, run_index)
            out = res.summary()
            out["taken"] = cs.taken()
            out["events"] = res.log.all()[-200:]
            child.send(out)
        except BaseException as e:
            child.send({"error": "".join(traceback.format_exception(e))[-3000:]})
        finally:
            os._exit(0)

    p = ctx.Process(target=target, daemon=False)  # non-daemonic: the code under test may start real worker processes
    p.start()
    child.close()
    out = None
    if parent.poll(wall_cap * (1 + len(prefix or []))):
        try:
            out = parent.recv()
        except EOFError:
            out = None
    if p.is_alive():
        p.kill()
    p.join(2)
    parent.close()
    return out


def _has(out, prop, invariant):
    if not out or "error" in out:
        return False
    new, _ = unknown_violations([tuple(v) for v in out["violations"]], prop)
    return any(inv == invariant for inv, _ in new)


def _trim(ch):
    out = {}
    for k, v in ch.items():
        v = list(v)
        while v and v[-1] == 0:
            v.pop()
        if v:
            out[k] = v
    return out


def shrink(engine, choices, invariant, tier, run_index, budget_s, log=print):
    """Minimise the choice dict while a violation of the same class
    (property, invariant, not a listed known finding) persists."""
    prop = engine.PROPERTY
    t_end = time.monotonic() + budget_s
    cap = engine.RUN_WALL_CAP
    best = _trim(choices)
    tests = 0

    def attempt(cand):
        nonlocal best, tests
        if time.monotonic() > t_end:
            return False
        cand = _trim(cand)
        if cand == best:
            return False
        tests += 1
        out = run_recorded(engine, cand, tier, run_index, cap)
        if _has(out, prop, invariant):
            best = _trim(out["taken"])
            return True
        return False

    def size(c):
        return (sum(len(v) for v in c.values()), sum(sum(v) for v in c.values()))

    order = getattr(engine, "SHRINK_ORDER", None)
    improved = True
    while improved and time.monotonic() < t_end:
        improved = False
        before = size(best)
        names = sorted(best, key=lambda n: (order.index(n.split(":")[0]) if order and n.split(":")[0] in order else 99, n))
        for name in names:
            if name not in best:
                continue
            # drop the whole stream
            c = dict(best)
            c.pop(name)
            if attempt(c):
                continue
            # truncate tail by halves
            n = len(best.get(name, []))
            k = n // 2
            while k >= 1 and time.monotonic() < t_end:
                cur = best.get(name, [])
                if len(cur) > k:
                    c = dict(best)
                    c[name] = cur[: len(cur) - k]
                    if attempt(c):
                        continue
                k //= 2
            # delete blocks
            for blk in (16, 8, 4, 3, 2, 1):
                i = len(best.get(name, [])) - blk
                while i >= 0 and time.monotonic() < t_end:
                    cur = best.get(name, [])
                    if i + blk <= len(cur):
                        c = dict(best)
                        c[name] = cur[:i] + cur[i + blk:]
                        attempt(c)
                    i -= blk
            # zero blocks, then lower single values
            for blk in (8, 2):
                cur = best.get(name, [])
                for i in range(0, len(cur), blk):
                    cur = best.get(name, [])
                    if any(cur[i:i + blk]):
                        c = dict(best)
                        c[name] = cur[:i] + [0] * len(cur[i:i + blk]) + cur[i + blk:]
                        attempt(c)
            i = 0
            while i < len(best.get(name, [])) and time.monotonic() < t_end:
                cur = best[name]
                v = cur[i]
                if v > 0:
                    for nv in (0, 1, v // 2, v - 1):
                        if nv < v:
                            c = dict(best)
                            c[name] = cur[:i] + [nv] + cur[i + 1:]
                            if attempt(c):
                                break
                i += 1
        if size(best) < before:
            improved = True
    log(f"[shrink] {tests} candidate runs, draws {size(choices)[0]} -> {size(best)[0]}")
    return best


def repo_state(repo):
    try:
        rev = subprocess.run(["git", "-C", repo, "rev-parse", "HEAD"], capture_output=True, text=True, timeout=20).stdout.strip()
        diff = subprocess.run(["git", "-C", repo, "diff", "HEAD"], capture_output=True, timeout=60).stdout
        import hashlib

        return {"rev": rev, "dirty_sha": hashlib.sha256(diff).hexdigest()[:16] if diff else ""}
    except Exception:
        return {"rev": "?", "dirty_sha": "?"}


def versions():
    import numpy
    import scipy

    out = {"python": sys.version.split()[0], "numpy": numpy.__version__, "scipy": scipy.__version__}
    try:
        import cvxpy

        out["cvxpy"] = cvxpy.__version__
    except Exception:
        pass
    try:
        import picos

        out["picos"] = picos.__version__
    except Exception:
        pass
    return out


def write_replay(engine, invariant, verif_seed, tier, run_index, choices, out, repo, prefix=None):
    os.makedirs(os.path.join(outdir(), "replays"), exist_ok=True)
    path = os.path.join(outdir(), "replays", f"{engine.PROPERTY}-{engine.NAME}-{verif_seed}-{run_index}.json")
    det = [d for inv, d in out["violations"] if inv == invariant]
    doc = {
        "format": FORMAT,
        "property": engine.PROPERTY,
        "invariant": invariant,
        "engine": engine.NAME,
        "engine_module": engine.__name__,
        "verif_seed": verif_seed,
        "tier": tier,
        "run_index": run_index,
        "choices": choices,
        "prefix_runs": list(prefix or []),
        "ops": out.get("sample"),
        "faults": out.get("faults"),
        "detail": det[0] if det else None,
        "events_tail": out.get("events"),
        "event_digest": out["digest"],
        "repo": repo_state(repo),
        "versions": versions(),
    }
    with open(path, "w") as f:
        json.dump(doc, f, indent=1, sort_keys=True)
    return path


def replay_file(path, quiet=False):
    """Re-execute a replay file; returns (reproduced, message)."""
    with open(path) as f:
        doc = json.load(f)
    engine = _load_engine(doc["engine_module"])
    out = run_recorded(engine, doc["choices"], doc["tier"], doc["run_index"], engine.RUN_WALL_CAP * 2, prefix=doc.get("prefix_runs") or None, verif_seed=doc.get("verif_seed", 0))
    if not out or "error" in out:
        return False, "replay run failed: %s" % (out or {}).get("error", "timeout")
    invs = [v[0] for v in out["violations"]]
    if doc["invariant"] not in invs:
        return False, f"invariant {doc['invariant']} not violated on replay (got {invs})"
    if out["digest"] != doc["event_digest"]:
        return False, f"event digest differs on replay: {out['digest']} != {doc['event_digest']}"
    return True, f"reproduced {doc['invariant']} digest {out['digest']}"
