"""Reference models: independent of toqito (numpy / scipy / own tiny SDPs)."""

from __future__ import annotations

import itertools

import numpy as np

# ----------------------------------------------------------------------------
# linear-algebra helpers
# ----------------------------------------------------------------------------


def to_dm(s):
    s = np.asarray(s)
    if s.ndim == 1:
        return np.outer(s, s.conj())
    if s.ndim == 2 and s.shape[1] == 1:
        return s @ s.conj().T
    if s.ndim == 2 and s.shape[0] == 1:
        return s.conj().T @ s
    return s


def psd_sqrt(m):
    m = (m + m.conj().T) / 2
    w, v = np.linalg.eigh(m)
    w = np.clip(w, 0, None)
    return (v * np.sqrt(w)) @ v.conj().T


def is_herm(m, tol):
    return m.ndim == 2 and m.shape[0] == m.shape[1] and np.allclose(m, m.conj().T, atol=tol)


def min_eig(m):
    return float(np.linalg.eigvalsh((m + m.conj().T) / 2)[0])


def num_rank(m, rtol=1e-9):
    s = np.linalg.svd(m, compute_uv=False)
    if s.size == 0 or s[0] == 0:
        return 0
    return int(np.sum(s > rtol * s[0]))


def _finite(x):
    return isinstance(x, np.ndarray) and np.all(np.isfinite(x))


# ----------------------------------------------------------------------------
# C19: advertised kinds
# ----------------------------------------------------------------------------


def kind_violation(name, p, x, tol):
    """Return a reason string if x is not of the kind `name(p)` advertises."""
    try:
        return _kind(name, p, x, tol)
    except Exception as e:  # malformed object
        return "malformed result (%s: %s)" % (type(e).__name__, str(e)[:80])


def _kind(name, p, x, tol):
    if name == "random_unitary":
        d = p["dim"][0] if isinstance(p["dim"], list) else p["dim"]
        if not _finite(x) or x.shape != (d, d):
            return f"shape {getattr(x, 'shape', None)} != {(d, d)} or non-finite"
        if not np.allclose(x.conj().T @ x, np.eye(d), atol=tol) or not np.allclose(x @ x.conj().T, np.eye(d), atol=tol):
            return "U^dagger U != I"
        if p["is_real"] and (np.iscomplexobj(x) and np.any(x.imag != 0)):
            return "real requested but imaginary part non-zero"
        return None
    if name == "random_orthonormal_basis":
        d = p["dim"]
        if not isinstance(x, (list, tuple)) or len(x) != d:
            return "not a list of dim vectors"
        m = np.column_stack([np.asarray(v).reshape(-1) for v in x])
        if m.shape != (d, d) or not np.all(np.isfinite(m)):
            return "vectors of wrong length"
        if not np.allclose(m.conj().T @ m, np.eye(d), atol=tol):
            return "basis not orthonormal"
        if p["is_real"] and np.iscomplexobj(m) and np.any(m.imag != 0):
            return "real requested but imaginary part non-zero"
        return None
    if name == "random_density_matrix":
        d = p["dim"]
        k = p["k_param"] if p["k_param"] is not None else d
        if not _finite(x) or x.shape != (d, d):
            return f"shape {getattr(x, 'shape', None)} != {(d, d)} or non-finite"
        if not is_herm(x, tol):
            return "not Hermitian"
        if abs(np.trace(x) - 1) > tol:
            return "trace != 1"
        if min_eig(x) < -1e-10:
            return "negative eigenvalue %g" % min_eig(x)
        if num_rank(x, 1e-9) > k:
            return f"rank {num_rank(x, 1e-9)} exceeds k_param {k}"
        if p["is_real"] and np.iscomplexobj(x) and np.any(x.imag != 0):
            return "real requested but imaginary part non-zero"
        return None
    if name == "random_psd_operator":
        d = p["dim"]
        if not _finite(x) or x.shape != (d, d):
            return "wrong shape or non-finite"
        if not is_herm(x, tol):
            return "not Hermitian"
        if min_eig(x) < -1e-10:
            return "negative eigenvalue %g" % min_eig(x)
        if p["is_real"] and np.iscomplexobj(x) and np.any(np.abs(x.imag) > 0):
            return "real requested but imaginary part non-zero"
        return None
    if name == "random_state_vector":
        dim, k = p["dim"], p["k_param"]
        if isinstance(dim, list):
            dims = dim
            total = int(np.prod(dim))
            bounded = 0 < k < min(dim)
        else:
            bounded = 0 < k < dim
            dims = [dim, dim]
            total = dim * dim if bounded else dim
        if not _finite(x) or x.size != total or x.shape not in ((total, 1), (total,)):
            return f"shape {getattr(x, 'shape', None)} is not a vector of length {total} or non-finite"
        if abs(np.linalg.norm(x) - 1) > tol:
            return "not a unit vector"
        if p["is_real"] and np.iscomplexobj(x) and np.any(x.imag != 0):
            return "real requested but imaginary part non-zero"
        if bounded:
            r = num_rank(x.reshape(dims[0], dims[1]), 1e-9)
            if r > k:
                return f"Schmidt rank {r} exceeds bound {k}"
        return None
    if name == "random_povm":
        d, ni, no = p["dim"], p["num_inputs"], p["num_outputs"]
        if not _finite(x) or x.shape != (d, d, ni, no):
            return f"shape {getattr(x, 'shape', None)} != {(d, d, ni, no)} or non-finite"
        for i in range(ni):
            tot = np.zeros((d, d), dtype=complex)
            for a in range(no):
                m = x[:, :, i, a]
                if not is_herm(m, 1e-8):
                    return f"element ({i},{a}) not Hermitian"
                if min_eig(m) < -1e-8:
                    return f"element ({i},{a}) has negative eigenvalue"
                tot = tot + m
            if not np.allclose(tot, np.eye(d), atol=1e-8):
                return f"setting {i} does not sum to identity"
        return None
    if name == "random_circulant_gram_matrix":
        d = p["dim"]
        if not _finite(x) or x.shape != (d, d):
            return "wrong shape or non-finite"
        if np.iscomplexobj(x):
            return "not real"
        if not np.allclose(x, x.T, atol=tol):
            return "not symmetric"
        for i in range(d):
            if not np.allclose(np.roll(x[0], i), x[i], atol=tol):
                return "not circulant"
        if min_eig(x) < -1e-10:
            return "not positive semidefinite"
        return None
    if name == "random_states":
        n, d = p["n"], p["d"]
        if not isinstance(x, (list, tuple)) or len(x) != n:
            return "not a list of n vectors"
        for v in x:
            v = np.asarray(v)
            if v.shape != (d, 1) or not np.all(np.isfinite(v)):
                return "vector of wrong shape"
            if abs(np.linalg.norm(v) - 1) > tol:
                return "not a unit vector"
        return None
    if name == "random_ginibre":
        if not _finite(x) or x.shape != (p["dim_n"], p["dim_m"]):
            return "wrong shape or non-finite"
        return None
    return None


def povm_violation(ms, d, n, slack):
    if not isinstance(ms, (list, tuple)) or len(ms) != n:
        return "not a list of n operators"
    tot = np.zeros((d, d), dtype=complex)
    for i, m in enumerate(ms):
        m = np.asarray(m)
        if m.shape != (d, d) or not np.all(np.isfinite(m)):
            return f"element {i} has wrong shape or is non-finite"
        if not np.allclose(m, m.conj().T, atol=slack):
            return f"element {i} not Hermitian"
        if min_eig(m) < -slack:
            return f"element {i} has eigenvalue {min_eig(m):.3g}"
        tot = tot + m
    if not np.allclose(tot, np.eye(d), atol=slack):
        return "elements do not sum to the identity (max dev %.3g)" % float(np.max(np.abs(tot - np.eye(d))))
    return None


def helstrom(p, rhos):
    delta = p[0] * rhos[0] - p[1] * rhos[1]
    delta = (delta + delta.conj().T) / 2
    return 0.5 * (1 + float(np.sum(np.abs(np.linalg.eigvalsh(delta)))))


def min_error_sdp(p, rhos):
    """Own dual SDP for minimum-error discrimination: min Tr Y s.t. Y >= p_i rho_i."""
    import cvxpy as cp

    d = rhos[0].shape[0]
    y = cp.Variable((d, d), hermitian=True)
    cons = [y >> pi * r for pi, r in zip(p, rhos)]
    prob = cp.Problem(cp.Minimize(cp.real(cp.trace(y))), cons)
    try:
        v = prob.solve(solver=cp.SCS, eps=1e-8)
    except Exception:
        return None
    if prob.status not in ("optimal",):
        return None
    return float(v)


# ----------------------------------------------------------------------------
# nonlocal games
# ----------------------------------------------------------------------------


def classical_value_bf(prob, pred):
    """max over deterministic strategy pairs, by enumerating the answer functions
    of the player with fewer of them and best-responding per question."""
    prob = np.asarray(prob, dtype=float)
    pred = np.asarray(pred, dtype=float)
    na, nb, nx, ny = pred.shape
    w = pred * prob[None, None, :, :]  # w[a,b,x,y]
    if na**nx <= nb**ny:
        # enumerate Alice's functions f: x -> a
        best = -np.inf
        # t[x][a] = array over (b,y)
        for f in itertools.product(range(na), repeat=nx):
            s = np.zeros((nb, ny))
            for x, a in enumerate(f):
                s += w[a, :, x, :]
            v = float(np.sum(np.max(s, axis=0)))
            if v > best:
                best = v
        return best
    best = -np.inf
    for g in itertools.product(range(nb), repeat=ny):
        s = np.zeros((na, nx))
        for y, b in enumerate(g):
            s += w[:, b, :, y]
        v = float(np.sum(np.max(s, axis=0)))
        if v > best:
            best = v
    return best


def classical_value_bf_vec(prob, pred, chunk=4096):
    """Vectorised version of classical_value_bf for a few thousand strategies."""
    prob = np.asarray(prob, dtype=float)
    pred = np.asarray(pred, dtype=float)
    na, nb, nx, ny = pred.shape
    w = pred * prob[None, None, :, :]
    if na**nx > nb**ny:
        w = np.transpose(w, (1, 0, 3, 2))
        na, nb, nx, ny = w.shape
    # enumerate f: x -> a (na**nx functions), best response of the other player
    total = na**nx
    best = -np.inf
    for lo in range(0, total, chunk):
        idx = np.arange(lo, min(total, lo + chunk))
        s = np.zeros((idx.size, nb, ny))
        rem = idx.copy()
        for x in range(nx - 1, -1, -1):
            a = rem % na
            rem //= na
            s += np.transpose(w[a, :, x, :], (0, 1, 2))
        v = np.sum(np.max(s, axis=1), axis=1)
        best = max(best, float(v.max()))
    return best


def classical_value_literal(prob, pred):
    """Literal double enumeration over all pairs (f, g); tiny games only."""
    prob = np.asarray(prob, dtype=float)
    pred = np.asarray(pred, dtype=float)
    na, nb, nx, ny = pred.shape
    best = -np.inf
    for f in itertools.product(range(na), repeat=nx):
        for g in itertools.product(range(nb), repeat=ny):
            v = 0.0
            for x in range(nx):
                for y in range(ny):
                    v += prob[x, y] * pred[f[x], g[y], x, y]
            best = max(best, v)
    return best


def nonsignaling_value_lp(prob, pred):
    """Non-signaling value by an LP over behaviours p(a,b|x,y)."""
    from scipy.optimize import linprog

    prob = np.asarray(prob, dtype=float)
    pred = np.asarray(pred, dtype=float)
    na, nb, nx, ny = pred.shape
    n = na * nb * nx * ny

    def ix(a, b, x, y):
        return ((a * nb + b) * nx + x) * ny + y

    c = np.zeros(n)
    for a in range(na):
        for b in range(nb):
            for x in range(nx):
                for y in range(ny):
                    c[ix(a, b, x, y)] = -prob[x, y] * pred[a, b, x, y]
    rows, rhs = [], []
    # normalisation
    for x in range(nx):
        for y in range(ny):
            r = np.zeros(n)
            for a in range(na):
                for b in range(nb):
                    r[ix(a, b, x, y)] = 1
            rows.append(r)
            rhs.append(1.0)
    # Alice's marginal independent of y
    for x in range(nx):
        for a in range(na):
            for y in range(1, ny):
                r = np.zeros(n)
                for b in range(nb):
                    r[ix(a, b, x, y)] += 1
                    r[ix(a, b, x, 0)] -= 1
                rows.append(r)
                rhs.append(0.0)
    # Bob's marginal independent of x
    for y in range(ny):
        for b in range(nb):
            for x in range(1, nx):
                r = np.zeros(n)
                for a in range(na):
                    r[ix(a, b, x, y)] += 1
                    r[ix(a, b, 0, y)] -= 1
                rows.append(r)
                rhs.append(0.0)
    out = linprog(c, A_eq=np.array(rows), b_eq=np.array(rhs), bounds=(0, 1), method="highs")
    if out.status != 0:
        return None
    return float(-out.fun)


def product_game(prob, pred, reps):
    """Explicit r-fold product game (independent of toqito.tensor / update_odometer)."""
    prob = np.asarray(prob, dtype=float)
    pred = np.asarray(pred, dtype=float)
    p, v = prob, pred
    for _ in range(reps - 1):
        p = np.kron(p, prob)
        na, nb, nx, ny = v.shape
        ma, mb, mx, my = pred.shape
        nv = np.zeros((na * ma, nb * mb, nx * mx, ny * my))
        for x1 in range(nx):
            for y1 in range(ny):
                for x2 in range(mx):
                    for y2 in range(my):
                        nv[:, :, x1 * mx + x2, y1 * my + y2] = np.kron(v[:, :, x1, y1], pred[:, :, x2, y2])
        v = nv
    return p, v


def xor_classical_bf(prob, pred):
    """1/2 + 1/2 max_s sum_y | sum_x D[x,y] s_x | over the smaller side."""
    prob = np.asarray(prob, dtype=float)
    pred = np.asarray(pred)
    d = prob * (-1.0) ** pred
    if d.shape[0] > d.shape[1]:
        d = d.T
    q0 = d.shape[0]
    total = 1 << (q0 - 1)  # global sign symmetry
    best = -np.inf
    chunk = 8192
    for lo in range(0, total, chunk):
        idx = np.arange(lo, min(total, lo + chunk))
        bits = ((idx[:, None] >> np.arange(q0 - 1)[None, :]) & 1).astype(float)
        s = np.concatenate([np.ones((idx.size, 1)), 1 - 2 * bits], axis=1)
        v = np.abs(s @ d).sum(axis=1)
        best = max(best, float(v.max()))
    return 0.5 + 0.5 * best


# ----------------------------------------------------------------------------
# XOR games: certified bracket of the optimal quantum bias
# ----------------------------------------------------------------------------


def xor_bias_bracket(prob, pred):
    """Return (L, U) with L <= optimal quantum bias <= U.

    L is the bias achieved by explicit unit vectors (rounded from an own Gram-matrix
    SDP), U the value of an explicitly dual-feasible certificate (solver output
    repaired by a diagonal shift); both are rigorous whatever the solver accuracy.
    Returns None if the solver fails."""
    import cvxpy as cp

    prob = np.asarray(prob, dtype=float)
    d = prob * (-1.0) ** np.asarray(pred)
    q0, q1 = d.shape
    n = q0 + q1
    g = cp.Variable((n, n), symmetric=True)
    w = np.zeros((n, n))
    w[:q0, q0:] = d / 2
    w[q0:, :q0] = d.T / 2
    primal = cp.Problem(cp.Maximize(cp.trace(w @ g)), [g >> 0, cp.diag(g) == 1])
    try:
        primal.solve(solver=cp.SCS, eps=1e-9, max_iters=20000)
    except Exception:
        return None
    if g.value is None:
        return None
    gv = (g.value + g.value.T) / 2
    ew, ev = np.linalg.eigh(gv)
    vecs = ev * np.sqrt(np.clip(ew, 0, None))  # rows are vectors
    norms = np.linalg.norm(vecs, axis=1)
    norms[norms == 0] = 1.0
    vecs = vecs / norms[:, None]
    gram = vecs @ vecs.T
    low = float(np.sum(d * gram[:q0, q0:]))
    # dual: min (sum u + sum v)/2  s.t.  [[diag u, -D], [-D^T, diag v]] >= 0
    u = cp.Variable(q0)
    v = cp.Variable(q1)
    dual = cp.Problem(cp.Minimize((cp.sum(u) + cp.sum(v)) / 2), [cp.bmat([[cp.diag(u), -d], [-d.T, cp.diag(v)]]) >> 0])
    try:
        dual.solve(solver=cp.SCS, eps=1e-9, max_iters=20000)
    except Exception:
        return None
    if u.value is None:
        return None
    uu, vv = np.array(u.value, dtype=float), np.array(v.value, dtype=float)
    m = np.block([[np.diag(uu), -d], [-d.T, np.diag(vv)]])
    lam = float(np.linalg.eigvalsh(m)[0])
    shift = max(0.0, -lam) + 1e-12
    up = float((uu.sum() + vv.sum()) / 2 + shift * n / 2)
    return low, up


def xor_to_general(prob, pred):
    pred = np.asarray(pred)
    q0, q1 = pred.shape
    v = np.zeros((2, 2, q0, q1))
    for a in range(2):
        for b in range(2):
            v[a, b] = (pred == (a ^ b)).astype(float)
    return np.asarray(prob, dtype=float), v


# ----------------------------------------------------------------------------
# S(k) operator norm: own rigorous upper bounds on the true norm
# ----------------------------------------------------------------------------


def _swap_factors(x, d0, d1):
    return x.reshape(d0, d1, d0, d1).transpose(1, 0, 3, 2).reshape(d0 * d1, d0 * d1)


def sk1_dps2_upper(x, dims):
    """Upper bound on sup <ab|X|ab> (Hermitian X, k = 1): max Tr(X rho_OS) over states on
    O (x) S (x) S' that are Bose-symmetric on S S' and PPT across O and across S' (second level of the
    symmetric-extension hierarchy, extension taken on the smaller factor).  Every product state has
    such an extension, so the value bounds the true norm from above.  None if the solver fails."""
    import cvxpy as cp

    d0, d1 = dims
    if d0 < d1:
        x = _swap_factors(x, d0, d1)
        d_o, d_s = d1, d0
    else:
        d_o, d_s = d0, d1
    basis = []
    for i in range(d_s):
        for j in range(i, d_s):
            v = np.zeros((d_s, d_s))
            v[i, j] += 1
            v[j, i] += 1
            basis.append((v / np.linalg.norm(v)).reshape(-1))
    v_iso = np.kron(np.eye(d_o), np.array(basis).T)
    m = v_iso.shape[1]
    sig = cp.Variable((m, m), hermitian=True)
    rho = v_iso @ sig @ v_iso.conj().T

    def ptrace_last(r):
        out = 0
        for i in range(d_s):
            e = np.kron(np.eye(d_o * d_s), np.eye(d_s)[:, [i]])
            out = out + e.T @ r @ e
        return out

    def ptranspose(r, pre, d, post):
        out = 0
        for i in range(d):
            for j in range(d):
                e = np.zeros((d, d))
                e[i, j] = 1
                k = np.kron(np.kron(np.eye(pre), e), np.eye(post))
                out = out + k @ r @ k
        return out

    cons = [sig >> 0, cp.real(cp.trace(sig)) == 1, ptranspose(rho, 1, d_o, d_s * d_s) >> 0, ptranspose(rho, d_o * d_s, d_s, 1) >> 0]
    prob = cp.Problem(cp.Maximize(cp.real(cp.trace(x @ ptrace_last(rho)))), cons)
    try:
        val = prob.solve(solver=cp.SCS, eps=1e-7, max_iters=50000)
    except Exception:
        return None
    if prob.status != "optimal" or val is None or not np.isfinite(val):
        return None
    return float(val)


def sk_bilinear_upper(x, k, dims):
    """Upper bound on sup |<w|X|v>| over unit w, v of Schmidt rank <= k, for any X: maximise
    Re Tr(X Z^*) over [[P, Z], [Z^*, Q]] >= 0 with Tr P = Tr Q = 1 and P, Q in the outer
    approximation of S(k) states (PPT for k = 1, k (Tr_B R (x) I) >= R otherwise).  For w, v in S(k)
    the choice P = |w><w|, Q = |v><v|, Z = |w><v| is feasible, so the value bounds the norm."""
    import cvxpy as cp

    d0, d1 = dims
    n = d0 * d1
    big = cp.Variable((2 * n, 2 * n), hermitian=True)
    p_blk, q_blk, z_blk = big[:n, :n], big[n:, n:], big[:n, n:]

    def pt_b(r):
        out = 0
        for i in range(d1):
            for j in range(d1):
                e = np.zeros((d1, d1))
                e[i, j] = 1
                kk = np.kron(np.eye(d0), e)
                out = out + kk @ r @ kk
        return out

    def tr_b(r):
        out = 0
        for i in range(d1):
            e = np.kron(np.eye(d0), np.eye(d1)[:, [i]])
            out = out + e.T @ r @ e
        return out

    cons = [big >> 0, cp.real(cp.trace(p_blk)) == 1, cp.real(cp.trace(q_blk)) == 1]
    for r in (p_blk, q_blk):
        if k == 1:
            cons.append(pt_b(r) >> 0)
        else:
            cons.append(k * cp.kron(tr_b(r), np.eye(d1)) - r >> 0)
    prob = cp.Problem(cp.Maximize(cp.real(cp.trace(x @ z_blk.H))), cons)
    try:
        val = prob.solve(solver=cp.SCS, eps=1e-7, max_iters=50000)
    except Exception:
        return None
    if prob.status != "optimal" or val is None or not np.isfinite(val):
        return None
    return float(val)


def horodecki_2x4(b):
    r = np.zeros((8, 8))
    for i in range(8):
        r[i, i] = b
    r[4, 4] = r[7, 7] = (1 + b) / 2
    for i, j in [(0, 5), (1, 6), (2, 7)]:
        r[i, j] = r[j, i] = b
    r[4, 7] = r[7, 4] = np.sqrt(1 - b * b) / 2
    return r / (7 * b + 1)


def horodecki_3x3(a):
    r = np.zeros((9, 9))
    for i in range(9):
        r[i, i] = a
    r[6, 6] = r[8, 8] = (1 + a) / 2
    for i, j in [(0, 4), (0, 8), (4, 8)]:
        r[i, j] = r[j, i] = a
    r[6, 8] = r[8, 6] = np.sqrt(1 - a * a) / 2
    return r / (8 * a + 1)


def ppt_edge_operator(rho, dims, c1, c2):
    """X = lambda I - (c1 P_ker(rho) + c2 (P_ker(rho^Gamma))^Gamma) for a PPT state rho: every PPT state
    sigma has Tr(X sigma) <= lambda with equality at rho, so the maximum over PPT states sits on rho; if
    rho is an entangled edge state the supremum over product vectors is strictly smaller."""
    d0, d1 = dims

    def pt(m):
        return m.reshape(d0, d1, d0, d1).transpose(0, 3, 2, 1).reshape(d0 * d1, d0 * d1)

    def kerproj(m):
        w, v = np.linalg.eigh((m + m.conj().T) / 2)
        kk = v[:, w < 1e-9]
        return kk @ kk.conj().T

    z = c1 * kerproj(rho) + c2 * pt(kerproj(pt(rho)))
    z = (z + z.conj().T) / 2
    lam = float(np.linalg.eigvalsh(z)[-1])
    return lam * np.eye(d0 * d1) - z


# ----------------------------------------------------------------------------
# quantum hedging: own primal / dual pair
# ----------------------------------------------------------------------------


def _qubit_perm(order):
    """Permutation matrix P with P |i_0 ... i_{m-1}> = |i_order[0] ... i_order[m-1]> on m qubits."""
    m = len(order)
    n = 2**m
    t = np.eye(n).reshape([2] * m + [n])
    return t.transpose(list(order) + [m]).reshape(n, n)


def hedging_model(q, n, maximise=True):
    """Own SDPs for max (min) Re Tr(Q^* X) s.t. Tr_{Y_1..Y_n} X = I, X >= 0 on (Y_1 X_1 ... Y_n X_n), and the dual
    min (max) Tr Y s.t. E(Y) >= Q (<= Q), E(Y) = I_{Y} (x) Y_{X} written in the interleaved ordering.
    Returns (primal value, dual value) or None."""
    import cvxpy as cp

    m = 2 * n
    dim = 2**m
    x = cp.Variable((dim, dim), hermitian=True)
    # partial trace over the even positions (the Y systems): sum over computational basis vectors of those systems
    order = [2 * i for i in range(n)] + [2 * i + 1 for i in range(n)]  # interleaved -> (Y..., X...)
    p_to_yx = _qubit_perm(order)  # maps |y1 x1 y2 x2> to |y1 y2 x1 x2>
    xs = p_to_yx @ x @ p_to_yx.T
    dy = 2**n
    tr_y = 0
    for i in range(dy):
        e = np.kron(np.eye(dy)[:, [i]], np.eye(dy))
        tr_y = tr_y + e.T @ xs @ e
    cons = [tr_y == np.eye(dy), x >> 0]
    obj = cp.real(cp.trace(q.conj().T @ x))
    primal = cp.Problem(cp.Maximize(obj) if maximise else cp.Minimize(obj), cons)
    y = cp.Variable((dy, dy), hermitian=True)
    emb = p_to_yx.T @ cp.kron(np.eye(dy), y) @ p_to_yx
    qh = (q + q.conj().T) / 2
    dual = cp.Problem(cp.Minimize(cp.real(cp.trace(y))), [emb >> qh]) if maximise else cp.Problem(cp.Maximize(cp.real(cp.trace(y))), [emb << qh])
    try:
        pv = primal.solve(solver=cp.SCS, eps=1e-7, max_iters=50000)
        dv = dual.solve(solver=cp.SCS, eps=1e-7, max_iters=50000)
    except Exception:
        return None
    if primal.status != "optimal" or dual.status != "optimal":
        return None
    return float(pv), float(dv)
